#!/usr/bin/env python3
"""Sensitivity matrix: does each check fail when its property is broken on purpose?

    tools/mutants.py builtin [--only C03,C11] [--tier quick]
    tools/mutants.py seeded [ID ...] [--all-checks] [--tests] [--tier quick]

Every mutant / seeded patch is applied to a scratch copy of /repo (under
/tmp/funtracks-mut-*, removed afterwards); the checks run with VERIF_REPO pointing at it,
so /repo itself is never touched. Exit status 0 iff every mutant was detected by the
check(s) it targets.
"""

from __future__ import annotations

import argparse
import json
import os
import shutil
import subprocess
import sys
import tempfile
import time
from pathlib import Path

ROOT = Path(__file__).resolve().parent.parent
REPO = Path("/repo")

# (name, targets, file, old, new)
BUILTIN = [
    # ---- C01
    ("deleteedge-forgets-attrs", ["C01"], "actions/add_delete_edge.py",
     "        for key in self.tracks.features.edge_features:\n            val = tracks.get_edge_attr(edge, key)",
     "        for key in []:\n            val = tracks.get_edge_attr(edge, key)"),
    ("updatenodeseg-inverse-keeps-added", ["C01", "C07"], "actions/update_segmentation.py",
     "            added=not self.added,", "            added=self.added,"),
    ("actiongroup-inverse-not-reversed", ["C01", "C02"], "actions/_base.py",
     "for action in self.actions[::-1]]", "for action in self.actions]"),
    ("updatetrackids-inverse-drops-lineage", ["C01", "C05"], "actions/update_track_id.py",
     "            self.old_tracklet_id,\n            self.old_lineage_id,\n", "            self.old_tracklet_id,\n            None,\n"),
    # ---- C02
    ("history-discards-redo-stack", ["C02"], "actions/action_history.py",
     "            self.undo_stack.extend(self.redo_stack)\n", ""),
    ("redo-records-again", ["C02"], "actions/action_history.py",
     "            action.inverse()\n            return True",
     "            self.undo_stack.append(action.inverse())\n            return True"),
    ("swap-nested-edge-action-registers-itself", ["C02", "C20"], "user_actions/_user_swap_predecessors.py",
     "UserAddEdge(tracks, (pred1, node2), force=False, _top_level=False)",
     "UserAddEdge(tracks, (pred1, node2), force=False, _top_level=True)"),
    # ---- C03
    ("addedge-accepts-same-frame", ["C03"], "user_actions/user_add_edge.py",
     "if self.tracks.get_time(source) >= self.tracks.get_time(target):",
     "if self.tracks.get_time(source) > self.tracks.get_time(target):"),
    ("swap-validation-off-by-one", ["C11"], "user_actions/_user_swap_predecessors.py",
     "            if pred1_time >= time2:", "            if pred1_time > time2:"),
    ("addnode-forced-upstream-keeps-one-edge", ["C04"], "user_actions/user_add_node.py",
     "                self.actions.append(\n                    UserDeleteEdge(tracks, (pred, succ_of_pred2), _top_level=False)\n                )\n",
     ""),
    # ---- C04
    ("division-child-not-relabelled", ["C04"], "user_actions/user_add_edge.py",
     "                UpdateTrackIDs(self.tracks, successor, self.tracks.get_next_track_id())",
     "                UpdateTrackIDs(self.tracks, successor, self.tracks.get_track_id(successor))"),
    ("sibling-not-merged-back", ["C04"], "user_actions/user_delete_edge.py",
     "            self.actions.append(UpdateTrackIDs(self.tracks, sibling, new_track_id))\n", ""),
    ("bulk-tracklets-degree-gt-2", ["C04"], "annotators/_track_annotator.py",
     "self.tracks.graph.out_degree() if degree >= 2]", "self.tracks.graph.out_degree() if degree > 2]"),
    # ---- C05
    ("join-does-not-propagate-lineage", ["C05"], "user_actions/user_add_edge.py",
     "                UpdateTrackIDs(self.tracks, target, new_track_id, new_lineage_id)",
     "                UpdateTrackIDs(self.tracks, target, new_track_id)"),
    ("orphan-keeps-lineage", ["C05"], "user_actions/user_delete_edge.py",
     "                UpdateTrackIDs(self.tracks, edge[1], new_track_id, new_lineage_id)",
     "                UpdateTrackIDs(self.tracks, edge[1], new_track_id)"),
    # ---- C06
    ("delete-node-leaves-lookup-entry", ["C06"], "annotators/_track_annotator.py",
     "        if track_id is not None:\n            self._remove_from_tracklet_bookkeeping([node], track_id)\n", ""),
    ("neighbors-le", ["C06", "C04"], "data_model/solution_tracks.py",
     "            if self.get_time(cand) < time:\n", "            if self.get_time(cand) <= time:\n"),
    ("new-node-ids-not-checked", ["C06"], "data_model/tracks.py",
     "            while self.graph.has_node(_id):", "            while False and self.graph.has_node(_id):"),
    # ---- C07
    ("deletenode-keeps-pixels", ["C07", "C01"], "actions/add_delete_node.py",
     "        if self.pixels is not None:\n            self.tracks.set_pixels(self.pixels, 0)\n", ""),
    ("get-pixels-wrong-time", ["C07"], "data_model/tracks.py",
     "        time_array = np.ones_like(loc_pixels[0]) * time\n", "        time_array = np.ones_like(loc_pixels[0])\n"),
    # ---- C08
    ("no-update-on-updatenodeseg", ["C08"], "annotators/_regionprops_annotator.py",
     "        if not isinstance(action, (AddNode, UpdateNodeSeg)):", "        if not isinstance(action, (AddNode,)):"),
    ("spacing-drops-last-axis", ["C08"], "annotators/_regionprops_annotator.py",
     "tuple(self.tracks.scale[1:])", "tuple(list(self.tracks.scale[1:-1]) + [1.0])"),
    # ---- C09
    ("iou-no-update-on-seg-change", ["C09"], "annotators/_edge_annotator.py",
     "        if not isinstance(action, (AddEdge, UpdateNodeSeg)):", "        if not isinstance(action, (AddEdge,)):"),
    ("bulk-iou-next-frame-only", ["C09"], "annotators/_edge_annotator.py",
     "                    self._iou_update(edges, seg[t], seg[end_time])", "                    self._iou_update(edges, seg[t], seg[t + 1])"),
    # ---- C10
    ("disable-keeps-registry-entry", ["C10"], "data_model/tracks.py",
     "            if key in self.features:\n                del self.features[key]", "            if False:\n                del self.features[key]"),
    ("protected-only-active", ["C10"], "actions/update_node_attrs.py",
     "protected_attrs = set(tracks.annotators.all_features.keys())", "protected_attrs = set(tracks.annotators.features.keys())"),
    ("activate-before-validate", ["C10"], "annotators/_annotator_registry.py",
     "        if not_found:\n            raise KeyError(f\"Features not available: {not_found}\")\n\n        # All features exist - proceed with activating\n        for annotator in self:\n            annotator.activate_features(keys)",
     "        for annotator in self:\n            annotator.activate_features(keys)\n        if not_found:\n            raise KeyError(f\"Features not available: {not_found}\")"),
    # ---- C11
    ("third-child-check-after-merge-removal", ["C11"], "user_actions/user_add_edge.py",
     "        if remaining_out_degree > 1 and (force or in_degree_target == 0):",
     "        if remaining_out_degree > 1 and in_degree_target == 0:"),
    ("paint-rollback-removed", ["C11"], "user_actions/user_update_segmentation.py",
     "            for action in reversed(self.actions):\n                action.inverse()\n            raise",
     "            raise"),
    ("attrs-partial-update-before-check", ["C11"], "actions/update_node_attrs.py",
     "        for attr in attrs:\n            if attr in protected_attrs:\n                raise ValueError(f\"Cannot update attribute {attr} manually\")",
     "        for attr in attrs:\n            if attr in protected_attrs:\n                raise ValueError(f\"Cannot update attribute {attr} manually\")\n            tracks._set_node_attr(node, attr, attrs[attr])"),
    # ---- C12
    ("parent-minus1-filter-dropped", ["C12"], "import_export/csv/_import.py",
     "            if not pd.isna(parent_id) and parent_id != -1", "            if not pd.isna(parent_id)"),
    ("position-columns-sorted", ["C12"], "import_export/_tracks_builder.py",
     "            col_arrays = [props[c][\"values\"] for c in source_cols]",
     "            col_arrays = [props[c][\"values\"] for c in sorted(source_cols)]"),
    # ---- C13
    ("relabel-in-place-chains", ["C13"], "import_export/_import_segmentation.py",
     "            new_segmentation[t][computed_seg[t] == seg_id] = node_id",
     "            computed_seg[t][computed_seg[t] == seg_id] = node_id\n            new_segmentation[t] = computed_seg[t]"),
    ("offset-not-applied-to-graph", ["C13"], "import_export/_import_segmentation.py",
     "        nx.relabel_nodes(graph, mapping, copy=False)\n", ""),
    # ---- C14
    ("csv-export-swaps-yx", ["C14"], "import_export/csv/_export.py",
     "            for name, value in zip(column_map[\"coords\"], pos, strict=True):",
     "            for name, value in zip(column_map[\"coords\"], pos[::-1], strict=True):"),
    ("internal-format-drops-scale", ["C14"], "import_export/internal_format.py",
     "        \"scale\": tracks.scale\n        if not isinstance(tracks.scale, np.ndarray)\n        else tracks.scale.tolist(),",
     "        \"scale\": None,"),
    # ---- C15
    ("descendants-instead-of-ancestors", ["C15"], "import_export/_utils.py",
     "        ancestors = nx.ancestors(graph, node)", "        ancestors = nx.descendants(graph, node)"),
    ("only-parents-not-all-ancestors", ["C15"], "import_export/_utils.py",
     "        ancestors = nx.ancestors(graph, node)", "        ancestors = set(graph.predecessors(node))"),
    # ---- C16
    ("split-position-without-copy", ["C16"], "import_export/geff/_export.py",
     "        new_graph = tracks.graph.copy()", "        new_graph = tracks.graph"),
    ("export-sets-scale-again", ["C16"], "import_export/geff/_export.py",
     "    scale = tracks.scale if tracks.scale is not None else (1.0,) * tracks.ndim",
     "    if tracks.scale is None:\n        tracks.scale = (1.0,) * tracks.ndim\n    scale = tracks.scale"),
    # ---- C17
    ("display-fuzzy-overwrites-again", ["C17"], "import_export/_name_mapping.py",
     "            _, feature_key, idx = lower_display_map[closest[0]]\n            # Never overwrite a key that is already mapped: the property stays unmatched\n            if feature_key in mapping:\n                continue\n",
     "            _, feature_key, idx = lower_display_map[closest[0]]\n"),
    ("fuzzy-standard-does-not-consume", ["C17"], "import_export/_name_mapping.py",
     "            mapping[field] = best_match\n            props_left.remove(best_match)", "            mapping[field] = best_match"),
    # ---- C18
    ("distance-strictly-less", ["C18"], "candidate_graph/utils.py",
     "prev_kdtree.query_ball_tree(next_kdtree, max_edge_distance)",
     "prev_kdtree.query_ball_tree(next_kdtree, max_edge_distance * (1 - 1e-9))"),
    ("links-frame-plus-two", ["C18"], "candidate_graph/utils.py",
     "        if frame + 1 not in node_frame_dict:\n            continue\n        # always",
     "        if frame + 1 not in node_frame_dict:\n            if frame + 2 not in node_frame_dict:\n                continue\n            node_frame_dict = {**node_frame_dict, frame + 1: node_frame_dict[frame + 2]}\n        # always"),
    # ---- C19
    ("unique-labels-reset-on-empty", ["C19"], "utils/_segmentation_utils.py",
     "        curr_max = max(curr_max, int(np.max(frame)))", "        curr_max = int(np.max(frame))"),
    ("relabel-by-track-keeps-division-together", ["C19"], "utils/_segmentation_utils.py",
     "    parent_nodes = [n for (n, d) in solution_nx_graph.out_degree() if d > 1]",
     "    parent_nodes = [n for (n, d) in solution_nx_graph.out_degree() if d > 2]"),
    # ---- C20
    ("false-undo-emits", ["C20"], "data_model/tracks.py",
     "        if self.action_history.undo():\n            self.refresh.emit()\n            return True\n        return False",
     "        res = self.action_history.undo()\n        self.refresh.emit()\n        return res"),
    ("paint-payload-missing", ["C20"], "user_actions/user_update_segmentation.py",
     "        self.tracks.refresh.emit(node_to_select)", "        self.tracks.refresh.emit()"),
]


def scratch_copy() -> Path:
    d = Path(tempfile.mkdtemp(prefix="funtracks-mut-"))
    shutil.copytree(REPO / "src", d / "src", ignore=shutil.ignore_patterns("__pycache__", "*.egg-info"))
    return d


def run_check(prop: str, repo: Path, tier: str, seed: str = "1") -> tuple[int, str, float]:
    env = dict(os.environ, VERIF_REPO=str(repo), VERIF_SEED=seed)
    t0 = time.time()
    p = subprocess.run([str(ROOT / "check"), prop, "--tier", tier, "--no-evidence"], cwd=ROOT, env=env,
                       capture_output=True, text=True, timeout=3600)
    lines = [l for l in p.stdout.splitlines() if l.startswith(("VIOLATION", "  bucket", "HARNESS", "KNOWN"))]
    return p.returncode, "\n".join(lines[:4]), time.time() - t0


def cmd_builtin(args) -> int:
    only = set(args.only.split(",")) if args.only else None
    missed = 0
    rows = []
    for name, targets, rel, old, new in BUILTIN:
        if only and not (set(targets) & only):
            continue
        if args.name and args.name != name:
            continue
        d = scratch_copy()
        try:
            f = d / "src" / "funtracks" / rel
            s = f.read_text()
            if s.count(old) != 1:
                print(f"[{name}] PATTERN NOT FOUND ({s.count(old)} matches) in {rel}")
                missed += 1
                continue
            f.write_text(s.replace(old, new))
            for prop in targets:
                if only and prop not in only:
                    continue
                rc, out, dt = run_check(prop, d, args.tier)
                verdict = {0: "MISSED", 1: "detected", 2: "harness-error"}.get(rc, f"rc={rc}")
                if rc != 1 and prop == targets[0]:
                    missed += 1
                first = out.splitlines()[1].strip()[:150] if len(out.splitlines()) > 1 else ""
                print(f"[{name}] {prop}: {verdict} ({dt:.0f}s) {first}")
                rows.append((name, prop, verdict))
        finally:
            shutil.rmtree(d, ignore_errors=True)
    print(f"{len(rows)} runs, {missed} primary misses")
    return 1 if missed else 0


def cmd_seeded(args) -> int:
    sdir = ROOT / "seeded"
    ids = args.ids or sorted(p.name for p in sdir.iterdir() if (p / "patch.diff").exists())
    all_props = [json.loads(l)["id"] for l in (ROOT / "properties.jsonl").read_text().splitlines() if l.strip()]
    missed = 0
    for sid in ids:
        meta = json.loads((sdir / sid / "meta.json").read_text())
        d = Path(tempfile.mkdtemp(prefix="funtracks-mut-"))
        try:
            subprocess.run(["git", "-C", str(REPO), "worktree", "add", "-q", "--detach", str(d / "wt"), "HEAD"], check=True)
            wt = d / "wt"
            r = subprocess.run(["git", "-C", str(wt), "apply", str(sdir / sid / "patch.diff")], capture_output=True, text=True)
            if r.returncode != 0:
                print(f"[{sid}] patch does not apply: {r.stderr.strip()[:200]}")
                missed += 1
                continue
            if args.tests:
                env = dict(os.environ, PYTHONPATH=str(wt / "src"))
                t = subprocess.run(["/venv/bin/python", "-m", "pytest", "-q", "-p", "no:cacheprovider", "-x", "-n", "8"],
                                   cwd=wt, env=env, capture_output=True, text=True)
                print(f"[{sid}] repository tests: {t.stdout.strip().splitlines()[-1] if t.stdout.strip() else t.returncode}")
            props = all_props if args.all_checks else meta["checks_expected"]
            for prop in props:
                rc, out, dt = run_check(prop, wt, args.tier, seed=args.seed)
                verdict = {0: "not detected", 1: "detected", 2: "harness-error"}.get(rc, f"rc={rc}")
                if prop == meta["property"] and rc != 1:
                    missed += 1
                first = out.splitlines()[1].strip()[:160] if len(out.splitlines()) > 1 else ""
                print(f"[{sid}] {prop}: {verdict} ({dt:.0f}s) {first}")
        finally:
            subprocess.run(["git", "-C", str(REPO), "worktree", "remove", "--force", str(d / "wt")], capture_output=True)
            shutil.rmtree(d, ignore_errors=True)
    return 1 if missed else 0


def main() -> int:
    ap = argparse.ArgumentParser()
    sub = ap.add_subparsers(dest="cmd", required=True)
    b = sub.add_parser("builtin")
    b.add_argument("--only", default=None)
    b.add_argument("--name", default=None)
    b.add_argument("--tier", default="quick")
    s = sub.add_parser("seeded")
    s.add_argument("ids", nargs="*")
    s.add_argument("--all-checks", action="store_true")
    s.add_argument("--tests", action="store_true")
    s.add_argument("--tier", default="quick")
    s.add_argument("--seed", default="1")
    args = ap.parse_args()
    return cmd_builtin(args) if args.cmd == "builtin" else cmd_seeded(args)


if __name__ == "__main__":
    sys.exit(main())
