#!/bin/bash
# tools/verify_seed.sh <dir with patch.diff + demo.py>
# Confirms, in a fresh scratch worktree of /repo (removed afterwards): the patch applies on
# the current tree, the repository's test suite still passes with it, the demo fails with it
# and passes without it.
set -u
SRC=$(realpath "$1")
WT=$(mktemp -d /tmp/seedverify-XXXXXX)/wt
git -C /repo worktree add -q --detach "$WT" HEAD || exit 2
cleanup() { git -C /repo worktree remove --force "$WT" >/dev/null 2>&1; rm -rf "$(dirname "$WT")"; }
trap cleanup EXIT
cd "$WT" || exit 2
export PYTHONPATH="$WT/src" PYTHONWARNINGS=ignore TQDM_DISABLE=1
/venv/bin/python "$SRC/demo.py" >/tmp/seedverify.out 2>&1; echo "demo without patch: rc=$? (expect 0)"
git apply "$SRC/patch.diff" || { echo "PATCH DOES NOT APPLY"; exit 1; }
git diff --stat | tail -1
/venv/bin/python "$SRC/demo.py" >/tmp/seedverify.out 2>&1; echo "demo with patch:    rc=$? (expect 1)"; tail -3 /tmp/seedverify.out
/venv/bin/python -m pytest -q -p no:cacheprovider -n 8 2>&1 | tail -1
