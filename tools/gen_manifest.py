#!/usr/bin/env python3
"""Regenerates /verif/MANIFEST.json from the table below (kept next to the checks so the
manifest never drifts from what is built). A property is claimed only when its module
exists under vlib/props/."""

from __future__ import annotations

import json
from pathlib import Path

ROOT = Path(__file__).resolve().parent.parent

BASELINE_OFF = (
    "cd /repo && /venv/bin/python -m pytest -ra -q -p no:cacheprovider --timeout=900 "
    "--continue-on-collection-errors"
)

# id -> (technique, level text, level note, design ref)
TABLE = {
    "C01": (
        "Hypothesis-generated edit histories (model-based); round-trip oracle apply/inverse/inverse-of-inverse on the whole canonical state",
        "Random forests x configurations x edit sequences: every accepted user action is undone/redone and every primitive action is inverted twice, the complete canonical state (all registered features, ids, segmentation) compared exactly (recomputed floats rtol 1e-9). Search, not proof: bounded sizes.",
        "Trusts numpy/networkx; states of <= 12 nodes, <= 6 frames, sequences <= 50 steps.",
        "DESIGN.md 4/C01",
    ),
    "C02": (
        "exhaustive enumeration of all edit/undo/redo words up to a length bound plus Hypothesis-sampled long histories against a linear-timeline reference model",
        "All words over {edits, undo, redo} up to the bound are executed against a list-and-cursor reference model (exhaustive for that alphabet and bound), longer mixed histories are sampled.",
        "Reference model is the GURQ timeline as stated in the property; fixture of few nodes for the exhaustive part.",
        "DESIGN.md 4/C02",
    ),
    "C03": (
        "Hypothesis-generated edit histories offering every ordered node pair; validity predicate (degrees, forward time) and refusal/forced-removal relation",
        "After every accepted action/undo/redo the graph is checked to be a forward-in-time binary forest; offers that would break it must be refused with InvalidActionError or, when forced, remove only conflicting edges.",
        "Bounded sizes; conflict set computed by the harness from the pre-state.",
        "DESIGN.md 4/C03",
    ),
    "C04": (
        "Hypothesis-generated forests and edit histories; bijection oracle between track-id classes and reference unbranched segments (union-find) plus frame clause",
        "Track ids compared with an independent partition after construction and after every step; unrelated components must keep their ids.",
        "Bounded sizes.",
        "DESIGN.md 4/C04",
    ),
    "C05": (
        "Hypothesis-generated forests and edit histories; bijection oracle between lineage-id classes and weakly connected components plus frame clause",
        "Lineage ids compared with connected components after construction and after every step; unrelated components must keep their ids.",
        "Bounded sizes.",
        "DESIGN.md 4/C05",
    ),
    "C06": (
        "Hypothesis-generated edit histories; cache-vs-scan differential for lookups, neighbour/presence queries over all ids x times, freshness of issued ids",
        "Every lookup and query is compared with a scan of node attributes after every step.",
        "Bounded sizes.",
        "DESIGN.md 4/C06",
    ),
    "C07": (
        "Hypothesis-generated paint/erase and edit histories on 2D+t and 3D+t label images; label<->node bijection invariant and bit-exact array model",
        "After each step labels and nodes correspond one-to-one, get_pixels is exact, a paint leaves the array as painted, undo/redo restore arrays bit for bit.",
        "The harness plays the GUI (paints before calling the action, restores on refusal).",
        "DESIGN.md 4/C07",
    ),
    "C08": (
        "Hypothesis-generated edit histories with random feature subsets and scales; differential against numpy/skimage references and a from-scratch bulk recomputation",
        "Every enabled regionprops value of every node is compared with an independent computation on the current mask after each step.",
        "Shape features share skimage with the implementation (a defect in skimage itself is invisible).",
        "DESIGN.md 4/C08",
    ),
    "C09": (
        "Hypothesis-generated edit histories with overlapping masks and skip edges; exact rational IoU reference; bulk-vs-incremental metamorphic relation",
        "Every edge's IoU is compared with |A and B|/|A or B| from the masks in their own frames after every step and after (re-)enabling at random points.",
        "Bounded sizes.",
        "DESIGN.md 4/C09",
    ),
    "C10": (
        "Hypothesis-generated histories mixing enable/disable with edits; model of the enabled-set plus reference values; protected-key refusals",
        "Registry contents, recomputed values, frozen values of disabled features, KeyError atomicity and protected attributes are checked after each step.",
        "Core id features are only toggled between registry-level steps (user actions are undefined without track ids).",
        "DESIGN.md 4/C10",
    ),
    "C11": (
        "Hypothesis-generated refusal-biased histories; full-snapshot equality around every raising call",
        "Every call that raises is bracketed by deep snapshots of graph, attributes, segmentation, lookups, counters and history; zero refresh emissions.",
        "For paints the harness restores the painted pixels first (the caller's duty named in the property).",
        "DESIGN.md 4/C11",
    ),
    "C12": (
        "Hypothesis-generated source models rendered to DataFrames / GEFF stores; round trip against the source model; one-mutation malformed variants must raise ValueError",
        "Nodes, links, times, positions and mapped properties of the import are compared with the generated source model.",
        "pandas / geff / zarr trusted as transport.",
        "DESIGN.md 4/C12",
    ),
    "C13": (
        "Hypothesis-generated label images and colliding (time, seg id)->node id assignments; pixel-exact expected array",
        "The relabelled array is compared element-wise with an independently built expectation, for relabel_segmentation and for the DataFrame import path.",
        "",
        "DESIGN.md 4/C13",
    ),
    "C14": (
        "Hypothesis-generated editing sessions followed by CSV / GEFF / internal-format round trips",
        "Round trips of constructed and edited tracks are compared field by field.",
        "pandas / geff / zarr trusted as transport; explicit name maps.",
        "DESIGN.md 4/C14",
    ),
    "C15": (
        "Hypothesis-generated forests and node subsets; exported set == ancestor closure by independent BFS, for CSV and GEFF, with segmentation",
        "Exported nodes, edges and masks are compared with the ancestor closure.",
        "",
        "DESIGN.md 4/C15",
    ),
    "C16": (
        "Hypothesis-generated (configuration, read-only operation) pairs; deep snapshot equality before/after",
        "Every export, save and query is bracketed by full snapshots.",
        "",
        "DESIGN.md 4/C16",
    ),
    "C17": (
        "Hypothesis-generated colliding column-name lists (grammar of near-duplicates); multiset/validity oracle on the inferred map",
        "Every inferred map must use each column exactly once and give exact spellings of required keys to those keys.",
        "",
        "DESIGN.md 4/C17",
    ),
    "C18": (
        "Hypothesis-generated label arrays / point lists with frame gaps; brute-force exact (rational) reference graph",
        "Nodes, attributes and the edge set are compared with a brute-force all-pairs reference.",
        "Distances exactly on the threshold are asserted only for exactly representable coordinates.",
        "DESIGN.md 4/C18",
    ),
    "C19": (
        "Hypothesis-generated label arrays and solution forests; per-frame bijection / cross-frame disjointness; tracklet partition reference",
        "ensure_unique_labels and relabel_segmentation_with_track_id are run on generated arrays and forests and checked against validity predicates derived from the statement.",
        "Labels < 2**40.",
        "DESIGN.md 4/C19",
    ),
    "C20": (
        "Hypothesis-generated edit histories incl. nesting and refused actions; emission-count oracle on the refresh signal",
        "A listener on tracks.refresh counts emissions per call: exactly one per successful top-level action/undo/redo carrying the new node where one is created, none otherwise.",
        "",
        "DESIGN.md 4/C20",
    ),
}


def main() -> None:
    built = sorted(p.stem.upper() for p in (ROOT / "vlib" / "props").glob("c[0-9][0-9].py"))
    checks = []
    for pid in built:
        tech, text, note, ref = TABLE[pid]
        checks.append(
            {
                "property_id": pid,
                "quick_cmd": f"./check {pid} --tier quick",
                "thorough_cmd": f"./check {pid} --tier thorough",
                "evidence_file": f"/verif/evidence/{pid}.json",
                "replay_cmd_template": f"./check {pid} --replay {{path}}",
                "engine": "pbt",
                "level_claimed": {"category": "exploration", "text": text, "design_ref": ref},
                "level_note": note or "Bounded generated inputs; search, not proof.",
                "technique": tech,
            }
        )
    props = [json.loads(l)["id"] for l in (ROOT / "properties.jsonl").read_text().splitlines() if l.strip()]
    na = [
        {"property_id": pid, "reason": "check not built yet in this round (planned, see DESIGN.md section 4); the technique applies"}
        for pid in props
        if pid not in built
    ]
    manifest = {
        "version": 1,
        "setup_cmd": "./setup.sh",
        "hooks": {
            "guard": "FUNTRACKS_VERIF",
            "enable": "no source hooks are needed: every observation point is a public attribute; checks import funtracks from /repo/src (editable install, PYTHONPATH pinned by vlib/runner.py)",
            "baseline_off_cmd": BASELINE_OFF,
            "source_commits": [],
            "add_only": True,
        },
        "engines": [
            {
                "name": "pbt",
                "path": "vlib/",
                "serves_properties": built,
                "kind_free_text": "Hypothesis 6.168 generators + explicit oracles (reference models, round trips, differentials); exhaustive enumeration for the bounded part of C02; sharded over 16 processes; collect-then-shrink with ddmin / Hypothesis shrinking",
            }
        ],
        "checks": checks,
        "notes": "All checks: ./check <ID> --tier quick|thorough; VERIF_SEED selects the run; exit 2 = harness error. Known findings: known_findings.json.",
        "not_applicable": na,
    }
    (ROOT / "MANIFEST.json").write_text(json.dumps(manifest, indent=1) + "\n")
    print(f"claimed: {built}; not yet: {[n['property_id'] for n in na]}")


if __name__ == "__main__":
    main()
