#!/usr/bin/env python3
"""Write one prompt per property for a new round of independently written seeded changes.

usage: tools/make_seed_prompts.py <outdir> <worktree-root> <aim-file> [<hints.json>]

Each prompt contains only the property text (title, statement, quantifier), the agent's own
scratch worktree and output directory, what the earlier seeded changes for that property needed
(seeded/*/meta.json: needs_to_manifest), the aim of this round (free text from <aim-file>) and,
optionally, per-property source locations that no earlier change touched (<hints.json>).
Nothing else from /verif is shown to the authors.
"""
import glob
import json
import os
import sys

ROOT = os.path.dirname(os.path.dirname(os.path.abspath(__file__)))
out, wtroot, aimfile = sys.argv[1:4]
hints = json.load(open(sys.argv[4])) if len(sys.argv) > 4 else {}
template = open(os.path.join(ROOT, "tools", "seed_prompt_template.txt")).read()
aim = open(aimfile).read().strip()
for line in open(os.path.join(ROOT, "properties.jsonl")):
    p = json.loads(line)
    pid = p["id"]
    earlier = []
    for m in sorted(glob.glob(os.path.join(ROOT, "seeded", f"{pid}-*", "meta.json"))):
        earlier.append(json.load(open(m))["needs_to_manifest"])
    prop = f"{pid}: {p['title']}\n\nStatement: {p['statement']}\n\nQuantified over: {p['quantifier']['text']}\n"
    if earlier:
        prop += (f"\n\nNOTE: {len(earlier)} colleagues have already produced regressions for this property. "
                 "Their changes needed, respectively:\n")
        prop += "".join(f"  {i + 1}. {e}\n" for i, e in enumerate(earlier))
        prop += f"Do something clearly DIFFERENT from all of them (different function, mechanism and trigger). {aim}\n"
        if pid in hints:
            prop += ("\nSuggested places that no earlier regression touched (paths under src/funtracks; pick one through "
                     "which THIS property can be broken - if none of them can, pick another function that looks rarely "
                     "exercised): " + "; ".join(hints[pid]) + "\n")
    d = os.path.join(out, pid)
    os.makedirs(d, exist_ok=True)
    text = template.replace("{WT}", os.path.join(wtroot, pid)).replace("{OUT}", d).replace("{PROP}", prop)
    open(os.path.join(d, "prompt.txt"), "w").write(text)
print("prompts written to", out)
