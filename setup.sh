#!/bin/bash
# Offline setup: make sure hypothesis is importable next to the repository's packages.
PY=${VERIF_PYTHON:-/venv/bin/python}
if ! "$PY" -c "import hypothesis" 2>/dev/null; then
  "$PY" -m pip install --no-index --find-links /opt/veriftools/wheels hypothesis || exit 1
fi
"$PY" -c "import hypothesis, funtracks, numpy, networkx; print('setup ok: hypothesis', hypothesis.__version__, 'funtracks from', funtracks.__file__)"
