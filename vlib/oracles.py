"""Per-property oracles for the history machine (see machine.Oracle)."""

from __future__ import annotations

import os
import warnings

import numpy as np

from . import canon as C
from . import refs
from .machine import Oracle
from .world import CUSTOM_NODE, named_nodes, structural_tags

EDIT_OPS = ("add_node", "delete_node", "add_edge", "delete_edge", "swap", "attrs", "paint")


def _pre_components(pre) -> dict:
    """node -> frozenset(component) in a canonical pre-state."""
    comp = {}
    for cls in refs.lineages(pre["nodes"].keys(), pre["edges"].keys()):
        for n in cls:
            comp[n] = cls
    return comp


def _named_with_track(world, op, pre, tkey) -> set:
    named = set(named_nodes_pre(op, pre))
    tid = None
    if op["op"] == "add_node":
        tid = op["attrs"].get(tkey)
    elif op["op"] == "paint":
        tid = op.get("track_id")
    if tid is not None:
        named |= {n for n, a in pre["nodes"].items() if a.get(tkey) == tid}
    return named


def named_nodes_pre(op, pre) -> list:
    kind = op["op"]
    if kind in ("add_node", "delete_node", "attrs"):
        return [op["node"]]
    if kind in ("add_edge", "delete_edge"):
        return list(op["edge"])
    if kind == "swap":
        return list(op["nodes"])
    if kind == "paint":
        seg = pre["seg"]
        sp = tuple(np.asarray(a, dtype=np.int64) for a in op["pixels"])
        vals = {int(v) for v in np.unique(seg[op["time"]][sp]).tolist()} - {0}
        sf = op.get("second_frame")
        if sf is not None:  # the stroke also names the labels under its pixels in the other frame
            sp2 = tuple(np.asarray(a, dtype=np.int64) for a in sf["pixels"])
            vals |= {int(v) for v in np.unique(seg[int(sf["time"])][sp2]).tolist()} - {0}
        if op["value"]:
            vals.add(int(op["value"]))
        return sorted(vals)
    return []


# ========================================================================================
# C04 / C05: id partitions
# ========================================================================================
class PartitionOracle(Oracle):
    which = "tracklet"  # or "lineage"

    def _key(self):
        return self.w.tkey if self.which == "tracklet" else self.w.lkey

    def _classes(self, nodes, edges):
        return refs.tracklets(nodes, edges) if self.which == "tracklet" else refs.lineages(nodes, edges)

    def _check_partition(self, state, where):
        key = self._key()
        label_of = {n: a.get(key) for n, a in state["nodes"].items()}
        mm = refs.partition_mismatch(label_of, self._classes(state["nodes"].keys(), state["edges"].keys()))
        if mm:
            self.rep(f"{self.which}_partition:{where}", f"after {where}: {mm}")
            return False
        return True

    def start(self):
        self.col.evaluation()
        st = C.canon(self.w.tracks)
        route = self.w.cfg["route"]
        self._check_partition(st, f"construction[{route}]")
        self.col.event(f"construct:{route}")
        if st["edges"]:
            outdeg = {}
            for u, _ in st["edges"]:
                outdeg[u] = outdeg.get(u, 0) + 1
            shape = tuple(sorted((self.w.time(u), self.w.time(v), outdeg[u]) for u, v in st["edges"]))
            self.col.nontrivial_case(("construct", self.which, route, shape))

    def after(self, op, out, pre, post):
        key = self._key()
        kind = op["op"]
        where = kind if out.ok else f"refused_{kind}"
        if not self._check_partition(post, where):
            return
        if kind in EDIT_OPS and out.ok:
            # frame clause: components that contain no named node / node of the named track
            named = _named_with_track(self.w, op, pre, self.w.tkey)
            comp = _pre_components(pre)
            for n, a in pre["nodes"].items():
                if n not in post["nodes"]:
                    continue
                if comp[n] & named:
                    continue
                if post["nodes"][n].get(key) != a.get(key):
                    self.rep(f"{self.which}_frame:{kind}",
                             f"{kind} {op_brief(op)} changed the {self.which} id of unrelated node {n}: "
                             f"{a.get(key)} -> {post['nodes'][n].get(key)}")
                    return
        changed = [n for n, a in pre["nodes"].items()
                   if n in post["nodes"] and post["nodes"][n].get(key) != a.get(key)]
        struct = set(pre["edges"]) != set(post["edges"]) or set(pre["nodes"]) != set(post["nodes"])
        if struct:
            self.col.event(f"op:{kind}:changed_structure")
        if changed or (struct and self.which == "lineage" and
                       len(refs.lineages(pre["nodes"], pre["edges"])) != len(refs.lineages(post["nodes"], post["edges"]))):
            self.col.event(f"{self.which}:relabel:{kind}")
            self.col.nontrivial_case((self.which, kind, self._tags(op), min(len(changed), 4),
                                      bool(op.get("force")), out.ok))

    def before(self, op, pre):
        self._t = structural_tags(self.w, op)

    def _tags(self, op):
        return self._t


class C04Oracle(PartitionOracle):
    which = "tracklet"


class C05Oracle(PartitionOracle):
    which = "lineage"


def op_brief(op) -> str:
    d = {k: v for k, v in op.items() if k not in ("pixels", "op")}
    if "pixels" in op and op["pixels"] is not None:
        d["npix"] = len(op["pixels"][0])
    return str(d)


# ========================================================================================
# C03: forward-in-time binary forest
# ========================================================================================
class C03Oracle(Oracle):
    def start(self):
        self._check_forest("construction")

    def _check_forest(self, where) -> bool:
        g = self.w.tracks.graph
        for n in g.nodes:
            if g.in_degree(n) > 1:
                self.rep(f"merge:{where}", f"after {where}: node {n} has parents {sorted(g.predecessors(n))}")
                return False
            if g.out_degree(n) > 2:
                self.rep(f"third_child:{where}", f"after {where}: node {n} has children {sorted(g.successors(n))}")
                return False
        for u, v in g.edges:
            if not self.w.time(u) < self.w.time(v):
                self.rep(f"non_forward_edge:{where}",
                         f"after {where}: edge ({u},{v}) goes from t={self.w.time(u)} to t={self.w.time(v)}")
                return False
        return True

    def before(self, op, pre):
        self._tags = structural_tags(self.w, op)
        self._conflict = None
        g = self.w.tracks.graph
        kind = op["op"]
        tkey = self.w.tkey
        if kind == "add_edge":
            u, v = op["edge"]
            if u in g and v in g:
                viol = []
                if g.in_degree(v) > 0:
                    viol.append("merge")
                rem_out = g.out_degree(u) - (1 if g.has_edge(u, v) else 0)
                if g.out_degree(u) >= 2 and not g.has_edge(u, v):
                    viol.append("third_child")
                if self.w.time(u) >= self.w.time(v):
                    viol.append("non_forward")
                self._conflict = {"viol": viol, "allowed": set(g.in_edges(v)), "must": (u, v)}
                del rem_out
        elif kind == "paint" and op.get("second_frame") is not None:
            pass  # refused as an invalid argument (two time points), whatever else it conflicts with
        elif kind in ("add_node", "paint"):
            if kind == "add_node":
                node, tid, t = op["node"], op["attrs"].get(tkey), op["attrs"].get(self.w.time_key)
                creates = node not in g and tid is not None and t is not None
            else:
                node, tid, t = op["value"], op.get("track_id"), op["time"]
                creates = node != 0 and node not in g
            allowed = set()
            viol = []
            if creates:
                same = [(self.w.time(n), n) for n in g.nodes if g.nodes[n].get(tkey) == tid]
                if not any(tt == t for tt, _ in same):
                    before_ = [x for x in same if x[0] < t]
                    after_ = [x for x in same if x[0] > t]
                    pred = max(before_)[1] if before_ else None
                    succ = min(after_)[1] if after_ else None
                    if pred is not None:
                        allowed |= set(g.out_edges(pred))
                        if g.out_degree(pred) == 2:
                            viol.append("upstream_division")
                    if succ is not None:
                        allowed |= set(g.in_edges(succ))
                        ps = list(g.predecessors(succ))
                        if "upstream_division" not in viol and ps and g.out_degree(ps[0]) == 2:
                            viol.append("downstream_division")
            if kind == "paint":
                # nodes erased entirely lose their incident edges by definition of the edit
                seg = self.w.tracks.segmentation
                sp = tuple(np.asarray(a, dtype=np.int64) for a in op["pixels"])
                stroke = np.zeros(self.w.shape, dtype=bool)
                stroke[sp] = True
                erased = False
                for n in {int(x) for x in np.unique(seg[op["time"]][sp]).tolist()} - {0, int(op["value"])}:
                    if n in g and not ((seg[op["time"]] == n) & ~stroke).any():
                        allowed |= set(g.in_edges(n)) | set(g.out_edges(n))
                        erased = True
                if erased:
                    # The erased nodes are deleted (and their track neighbours reconnected)
                    # *before* the new node is placed, so the conflicts of the placement are
                    # those of an intermediate state: only the invariants are checked here.
                    viol = []
                    allowed = None
            self._conflict = {"viol": viol, "allowed": allowed, "must": None, "creates": creates}

    def after(self, op, out, pre, post):
        kind = op["op"]
        where = kind if out.ok else f"refused_{kind}"
        if not self._check_forest(where):
            return
        c = self._conflict
        if c is None or out.info.get("noop"):
            return
        force = bool(op.get("force"))
        if c["viol"]:
            self.col.event(f"offer:{kind}:{'+'.join(c['viol'])}:{'force' if force else 'noforce'}")
            self.col.nontrivial_case((kind, tuple(c["viol"]), force, out.ok, out.exc_name, self._tags))
        if c["viol"] and not force:
            if out.ok:
                self.rep(f"not_refused:{kind}:{'+'.join(c['viol'])}",
                         f"{kind} {op_brief(op)} would create {c['viol']} but was accepted without force")
            elif out.exc_name != "InvalidActionError":
                self.rep(f"wrong_exception:{kind}:{'+'.join(c['viol'])}",
                         f"{kind} {op_brief(op)} ({c['viol']}) raised {out.exc!r} instead of InvalidActionError")
            return
        if kind == "add_edge" and "non_forward" in c["viol"]:
            if out.ok:
                self.rep("not_refused:add_edge:non_forward",
                         f"non-forward edge {op['edge']} accepted (force={force})")
            elif out.exc_name != "InvalidActionError":
                self.rep("wrong_exception:add_edge:non_forward",
                         f"non-forward edge {op['edge']} raised {out.exc!r}")
            return
        if out.ok:
            removed = set(pre["edges"]) - set(post["edges"])
            extra = set() if c["allowed"] is None else removed - {(int(u), int(v)) for u, v in c["allowed"]}
            if extra:
                self.rep(f"removed_nonconflicting:{kind}",
                         f"{kind} {op_brief(op)} removed edges {sorted(extra)} that do not conflict with it "
                         f"(conflicting: {sorted(c['allowed'])})")
            if c["must"] is not None and tuple(c["must"]) not in post["edges"]:
                self.rep(f"requested_edge_missing:{kind}", f"{kind} {op_brief(op)} accepted but edge absent")
            if kind != "add_edge" and c.get("creates") and int(op["node"] if kind == "add_node" else op["value"]) not in post["nodes"]:
                self.rep(f"requested_node_missing:{kind}", f"{kind} {op_brief(op)} accepted but node absent")
        elif c["viol"] and out.exc_name != "InvalidActionError" and kind == "add_edge":
            self.rep(f"wrong_exception:{kind}:{'+'.join(c['viol'])}",
                     f"forced {kind} {op_brief(op)} raised {out.exc!r} instead of InvalidActionError")


# ========================================================================================
# C06: lookups, queries, fresh ids
# ========================================================================================
class C06Oracle(Oracle):
    def start(self):
        self._recent = []
        self.col.event(f"construct_route:{self.w.cfg['route']}")
        self._check("construction")

    def before(self, op, pre):
        self._tags = structural_tags(self.w, op)

    def after(self, op, out, pre, post):
        kind = op["op"]
        self._recent = (self._recent + [kind if out.ok else f"refused_{kind}"])[-3:]
        self._check(kind, pre, post)

    def finish(self):
        """Recomputing the ids (a registry-level operation, so only at the end of a walk) must
        leave lookups and counters that describe the *new* labelling only."""
        tr = self.w.tracks
        keys = [self.w.tkey] + ([self.w.lkey] if self.w.lkey else [])
        ok, r = _safe(lambda: tr.enable_features(keys))
        self.col.evaluation()
        if not ok:
            self.rep("recompute_raised", f"enable_features({keys}) raised {r!r}")
            return
        self.col.event("ids_recomputed")
        self._recent = ["recompute"]
        self._check("recompute_ids")

    def _check(self, where, pre=None, post=None):
        w = self.w
        tr = w.tracks
        g = tr.graph
        tkey, lkey = w.tkey, w.lkey
        scan_t: dict = {}
        scan_l: dict = {}
        for n, d in g.nodes(data=True):
            if d.get(tkey) is not None:
                scan_t.setdefault(int(d[tkey]), []).append(int(n))
            if lkey is not None and d.get(lkey) is not None:
                scan_l.setdefault(int(d[lkey]), []).append(int(n))
        scan_t = {k: sorted(v) for k, v in scan_t.items()}
        scan_l = {k: sorted(v) for k, v in scan_l.items()}
        lk = C.lookups(tr)
        if lk["tracklets"] != scan_t:
            self.rep(f"track_lookup:{where}", f"after {where}: track lookup {lk['tracklets']} != scan {scan_t}")
            return
        if lk["lineages"] != scan_l:
            self.rep(f"lineage_lookup:{where}", f"after {where}: lineage lookup {lk['lineages']} != scan {scan_l}")
            return
        with warnings.catch_warnings():
            warnings.simplefilter("ignore")
            nt = tr.get_next_track_id()
            nl = tr.get_next_lineage_id()
            if nt in scan_t or nt in tr.track_id_to_node:
                self.rep(f"next_track_id_in_use:{where}", f"after {where}: get_next_track_id()={nt} is in use / still listed in the lookup")
                return
            if nl in scan_l:
                self.rep(f"next_lineage_id_in_use:{where}", f"after {where}: get_next_lineage_id()={nl} is in use")
                return
            k = 1 + (len(self.w.trace) % 4)
            ids = [int(i) for i in tr._get_new_node_ids(k)]
            if len(set(ids)) != k or any(i in g for i in ids):
                self.rep(f"new_node_ids:{where}", f"after {where}: _get_new_node_ids({k})={ids} not fresh/distinct")
                return
            # queries over all ids x all times
            changed_tracks = set()
            if pre is not None:
                for n in set(pre["nodes"]) | set(post["nodes"]):
                    a = pre["nodes"].get(n, {}).get(tkey)
                    b = post["nodes"].get(n, {}).get(tkey)
                    if a != b:
                        changed_tracks |= {a, b}
                changed_tracks.discard(None)
            unused = max(list(scan_t) + [0]) + 3
            for tid in sorted(set(scan_t) | {nt, 0, unused}):
                members = [(w.time(n), n) for n in scan_t.get(tid, [])]
                times = [t for t, _ in members]
                unique = len(set(times)) == len(times)
                for t in range(-1, w.frames + 1):
                    has = tr.has_track_id_at_time(tid, t)
                    if bool(has) != (t in times):
                        self.rep(f"has_track_id_at_time:{where}",
                                 f"after {where}: has_track_id_at_time({tid},{t})={has}, scan says {t in times}")
                        return
                    if not unique:
                        continue
                    bef = [x for x in members if x[0] < t]
                    aft = [x for x in members if x[0] > t]
                    exp = (max(bef)[1] if bef else None, min(aft)[1] if aft else None)
                    got = tr.get_track_neighbors(tid, t)
                    got = tuple(None if x is None else int(x) for x in got)
                    if got != exp:
                        self.rep(f"get_track_neighbors:{where}",
                                 f"after {where}: get_track_neighbors({tid},{t})={got}, scan says {exp}")
                        return
                    self.col.evaluation()
                    if tid in changed_tracks:
                        self.col.nontrivial_case(("query", tuple(self._recent), len(members), t - min(times + [t]),
                                                  bool(bef), bool(aft)))
                        self.col.event("query_on_changed_track")


# ========================================================================================
# C20: refresh notifications
# ========================================================================================
class C20Oracle(Oracle):
    def before(self, op, pre):
        self._tags = structural_tags(self.w, op)
        self._exists = op.get("value") in self.w.tracks.graph if op["op"] == "paint" else None
        ah = self.w.tracks.action_history
        # is there something to undo / redo? (position in the history before the call)
        self._todo = {"undo": len(ah.undo_stack) - len(ah.redo_stack) > 0, "redo": len(ah.redo_stack) > 0}

    def after(self, op, out, pre, post):
        kind = op["op"]
        if out.info.get("noop"):
            return
        n = len(out.emitted)
        if kind in ("undo", "redo"):
            if not out.ok:
                return
            if self._todo[kind] and n != 1:
                self.rep(f"emissions:{kind}:something_to_{kind}",
                         f"{kind}() with an entry to {kind} in the history emitted {n} refresh signals (returned {out.result!r})")
                return
            exp = 1 if out.result else 0
            if n != exp:
                self.rep(f"emissions:{kind}:{'done' if out.result else 'nothing_to_do'}",
                         f"{kind}() returned {out.result} and emitted {n} refresh signals (expected {exp})")
            if not out.result:
                self.col.event(f"exhausted_{kind}")
                self.col.nontrivial_case((kind, "exhausted", len(self.w.tracks.action_history.undo_stack) > 0))
            return
        if kind not in EDIT_OPS:
            return
        if not out.ok:
            self.col.event(f"refused:{kind}")
            self.col.nontrivial_case((kind, "refused", out.exc_name, self._tags))
            if n != 0:
                self.rep(f"emissions:refused_{kind}", f"refused {kind} {op_brief(op)} emitted {n} refresh signals")
            return
        nested = self._nested(out.action)
        if nested:
            self.col.event(f"nested:{kind}")
            self.col.nontrivial_case((kind, "nested", nested, bool(op.get("force")), self._tags))
        if n != 1:
            self.rep(f"emissions:{kind}" + (":nested" if nested else ""),
                     f"successful {kind} {op_brief(op)} emitted {n} refresh signals (expected 1)")
            return
        payload = out.emitted[0]
        new_node = None
        if kind == "add_node":
            new_node = op["node"]
        elif kind == "paint" and op["value"] != 0 and self._exists is False:
            new_node = op["value"]
        if new_node is not None:
            if len(payload) != 1 or payload[0] is None or int(payload[0]) != int(new_node):
                self.rep(f"payload:{kind}", f"{kind} created node {new_node} but refresh carried {payload!r}")

    @staticmethod
    def _nested(action) -> int:
        from funtracks.actions._base import ActionGroup

        def count(a):
            c = 0
            for s in getattr(a, "actions", []):
                if isinstance(s, ActionGroup):
                    c += 1 + count(s)
            return c

        return count(action) if action is not None else 0


# ========================================================================================
# C11: a refused edit changes nothing
# ========================================================================================
class C11Oracle(Oracle):
    owns_atomicity = True

    def before(self, op, pre):
        self._tags = structural_tags(self.w, op)
        self._full = C.full_snapshot(self.w.tracks)

    def after(self, op, out, pre, post):
        kind = op["op"]
        if out.ok or kind in ("undo", "redo"):
            return
        cls = refusal_class(self.w, op, out)
        self.col.event(f"refusal:{cls}")
        self.col.nontrivial_case((kind, out.exc_name, cls, self._tags, bool(op.get("force"))))
        if kind in ("enable", "disable"):
            return
        d = C.full_diff(self._full, C.full_snapshot(self.w.tracks), strict_lookups=True)
        if d is not None:
            self.rep(f"refused_{kind}_changed_state:{cls}",
                     f"{kind} {op_brief(op)} raised {out.exc!r} but changed the tracks: {d}")
            return
        if out.emitted:
            self.rep(f"refused_{kind}_emitted", f"{kind} {op_brief(op)} raised {out.exc!r} but emitted refresh")


def refusal_class(world, op, out) -> str:
    kind = op["op"]
    msg = str(out.exc)
    g = world.tracks.graph
    if kind == "add_node":
        if world.time_key not in op["attrs"] or world.tkey not in op["attrs"]:
            return "missing_argument"
        if "already exists" in msg:
            return "existing_node"
        if "position or segmentation" in msg or "position" in msg.lower() and "must provide" in msg.lower():
            return "missing_position"
        if "division" in msg:
            return "conflict_without_force"
        if op.get("bad_pixels"):
            return "unwritable_pixels:" + op["bad_pixels"]
        return f"other:{out.exc_name}"
    if kind == "add_edge":
        if any(n not in g for n in op["edge"]):
            return "unknown_node"
        if "merge" in msg:
            return "conflict_without_force"
        if "Expected degree" in msg:
            return "forced_but_failing" if op.get("force") else "third_child"
        if "time" in msg:
            return "non_forward"
        return f"other:{out.exc_name}"
    if kind == "delete_edge":
        return "unknown_edge"
    if kind == "delete_node":
        return "unknown_node"
    if kind == "swap":
        return "invalid_swap"
    if kind == "attrs":
        if op["node"] not in g:
            return "unknown_node"
        return "protected_attribute"
    if kind == "paint":
        if op.get("second_frame") is not None:
            return "paint_two_time_points"
        return "paint_subedit_refused:" + ("conflict_without_force" if "division" in msg else out.exc_name or "")
    return f"other:{out.exc_name}"


# ========================================================================================
# C01: every edit exactly invertible
# ========================================================================================
def _safe(fn):
    """Run a funtracks call under the watchdog; returns (ok, result_or_exception)."""
    from .world import OP_TIMEOUT_S, watchdog

    try:
        with warnings.catch_warnings(), watchdog(OP_TIMEOUT_S):
            warnings.simplefilter("ignore")
            return True, fn()
    except Exception as e:  # noqa: BLE001
        return False, e


class C01Oracle(Oracle):
    owns_history = True
    extra_ops = {"prim": 3}
    INTERESTING = {"dividing", "after_division", "skip_in", "skip_out", "root", "leaf"}

    def before(self, op, pre):
        self._tags = structural_tags(self.w, op)

    # ---- user actions ----------------------------------------------------------------
    def after(self, op, out, pre, post):
        kind = op["op"]
        tr = self.w.tracks
        if kind in ("undo", "redo"):
            if not out.ok:
                self.rep(f"{kind}_raised", f"{kind}() raised {out.exc!r}")
            return
        if kind not in EDIT_OPS or not out.ok or out.info.get("noop"):
            return
        route = "undo" if len(self.w.trace) % 2 else "inverse"
        changed = C.canon_diff(pre, post) is not None
        if route == "undo":
            ok, r = _safe(tr.undo)
            if not ok:
                self.rep(f"undo_raised:{kind}", f"undo of {kind} {op_brief(op)} raised {r!r}")
                return
            d = C.canon_diff(pre, C.canon(tr))
            if d or r is not True:
                self.rep(f"undo_mismatch:{kind}", f"undo of {kind} {op_brief(op)} does not restore the state: {d or 'returned ' + repr(r)}")
                return
            ok, r = _safe(tr.redo)
            if not ok:
                self.rep(f"redo_raised:{kind}", f"redo of {kind} {op_brief(op)} raised {r!r}")
                return
            d = C.canon_diff(post, C.canon(tr))
            if d or r is not True:
                self.rep(f"redo_mismatch:{kind}", f"redo of {kind} {op_brief(op)} does not reproduce the post-edit state: {d or 'returned ' + repr(r)}")
                return
        else:
            ok, inv = _safe(out.action.inverse)
            if not ok:
                self.rep(f"inverse_raised:{kind}", f"inverse of {kind} {op_brief(op)} raised {inv!r}")
                return
            d = C.canon_diff(pre, C.canon(tr))
            if d:
                self.rep(f"inverse_mismatch:{kind}", f"inverse of {kind} {op_brief(op)} does not restore the state: {d}")
                return
            ok, inv2 = _safe(inv.inverse)
            if not ok:
                self.rep(f"inverse2_raised:{kind}", f"inverse of the inverse of {kind} {op_brief(op)} raised {inv2!r}")
                return
            d = C.canon_diff(post, C.canon(tr))
            if d:
                self.rep(f"inverse2_mismatch:{kind}", f"inverse of the inverse of {kind} {op_brief(op)} does not reproduce the post-edit state: {d}")
                return
        self.col.event(f"roundtrip:{kind}:{route}")
        removed_extra = bool(op.get("force")) and len(set(pre["edges"]) - set(post["edges"])) > 0
        tags = set(self._tags)
        if changed and (tags & self.INTERESTING or removed_extra or kind == "paint"):
            if removed_extra:
                self.col.event("forced_removal")
            self.col.nontrivial_case((kind, self._tags, bool(op.get("force")), route, self.w.cfg["seg"],
                                      self.w.ndim, len(post["nodes"]) - len(pre["nodes"]),
                                      len(post["edges"]) - len(pre["edges"])))

    # ---- primitive actions -----------------------------------------------------------
    def gen_extra(self, kind, rnd):
        from .world import (CUSTOM_EDGE, NEW_KEY, _background_box, _pick, _unused_node_id,
                            masks_defined)

        w = self.w
        tr = w.tracks
        g = tr.graph
        nodes = w.nodes()
        subs = ["AddNode"]
        if nodes:
            subs += ["UpdateNodeAttrs", "UpdateTrackIDs"]
            if any(g.degree(n) == 0 for n in nodes):
                subs.append("DeleteNode")
            if len(nodes) > 1:
                subs.append("AddEdge")
            if g.number_of_edges():
                subs.append("DeleteEdge")
            if tr.segmentation is not None:
                subs += ["UpdateNodeSeg", "UpdateNodeSeg"]
        sub = _pick(rnd, subs)
        op = {"op": "prim", "sub": sub}
        if sub == "AddNode":
            t = rnd.randint(0, w.frames - 1)
            attrs = {w.time_key: t, w.tkey: int(tr.get_next_track_id()) + rnd.randint(0, 2),
                     CUSTOM_NODE: round(rnd.random(), 3)}
            if w.lkey is not None:
                attrs[w.lkey] = int(tr.get_next_lineage_id())
            op["node"] = _unused_node_id(w, rnd)
            op["pixels"] = None
            if tr.segmentation is not None:
                if op["node"] > int(np.iinfo(tr.segmentation.dtype).max):
                    return None  # the label image cannot hold this id (precondition of painting it)
                m = _background_box(w, rnd, t)
                if m is None:
                    return None
                idx = np.nonzero(m)
                op["pixels"] = [np.full(len(idx[0]), t).tolist(), *[a.tolist() for a in idx]]
                if not masks_defined(w, {"op": "add_node", "pixels": op["pixels"]}):
                    return None
            else:
                pos = [round(rnd.random() * (s - 1), 2) for s in w.shape]
                if isinstance(w.pos_key, list):
                    attrs.update(dict(zip(w.pos_key, pos)))
                else:
                    attrs[w.pos_key] = pos
            op["attrs"] = attrs
        elif sub == "DeleteNode":
            op["node"] = _pick(rnd, [n for n in nodes if g.degree(n) == 0])
        elif sub == "AddEdge":
            u = _pick(rnd, nodes)
            later = [v for v in nodes if w.time(v) > w.time(u) and not g.has_edge(u, v)]
            if not later:
                return None
            op["edge"] = [u, _pick(rnd, later)]
            op["attrs"] = {CUSTOM_EDGE: rnd.choice([0, 0, 1, 4, 9])} if rnd.random() < 0.6 else {}
        elif sub == "DeleteEdge":
            op["edge"] = list(_pick(rnd, w.edges()))
        elif sub == "UpdateNodeAttrs":
            op["node"] = _pick(rnd, nodes)
            op["attrs"] = {CUSTOM_NODE: round(rnd.random() * 50, 3)} if rnd.random() < 0.7 else {NEW_KEY: rnd.randint(0, 9)}
        elif sub == "UpdateTrackIDs":
            import networkx as nx

            n0 = _pick(rnd, nodes)
            op["node"] = n0
            down = nx.descendants(g, n0) | {n0}
            down_tids = {g.nodes[n].get(w.tkey) for n in down}
            # ids in use by *unrelated* tracks are allowed (only downstream reuse is excluded)
            others = sorted({int(d[w.tkey]) for n, d in g.nodes(data=True) if d.get(w.tkey) is not None} - down_tids)
            if others and rnd.random() < 0.5:
                op["tracklet_id"] = _pick(rnd, others)
            else:
                op["tracklet_id"] = int(tr.get_next_track_id()) + rnd.randint(0, 3)
            if w.lkey is None or rnd.random() < 0.4:
                op["lineage_id"] = None
            else:
                lin_others = sorted({int(d[w.lkey]) for n, d in g.nodes(data=True) if d.get(w.lkey) is not None}
                                    - {g.nodes[n].get(w.lkey) for n in down})
                if lin_others and rnd.random() < 0.4:
                    op["lineage_id"] = _pick(rnd, lin_others)
                else:
                    op["lineage_id"] = int(tr.get_next_lineage_id()) + rnd.randint(0, 2)
        elif sub == "UpdateNodeSeg":
            n = _pick(rnd, nodes)
            t = w.time(n)
            op["node"] = n
            if rnd.random() < 0.5:
                m = _background_box(w, rnd, t)
                if m is None:
                    return None
                op["added"] = True
            else:
                own = tr.segmentation[t] == n
                idx = np.nonzero(own)
                k = len(idx[0])
                if k < 2:
                    return None
                take = sorted({rnd.randint(0, k - 1) for _ in range(rnd.randint(1, max(1, k // 2)))})
                if len(take) >= k:
                    return None
                m = np.zeros(w.shape, dtype=bool)
                m[tuple(a[take] for a in idx)] = True
                op["added"] = False
            idx = np.nonzero(m)
            op["pixels"] = [np.full(len(idx[0]), t).tolist(), *[a.tolist() for a in idx]]
            if w.ndim == 4:
                cur = tr.segmentation[t] == n
                new = (cur | m) if op["added"] else (cur & ~m)
                if not refs.shape3d_defined(new, w.spacing()):
                    return None
        return op

    def apply_extra(self, op, out):
        import funtracks.actions as fa

        tr = self.w.tracks
        sub = op["sub"]
        px = None
        if op.get("pixels") is not None:
            px = tuple(np.asarray(a, dtype=np.int64) for a in op["pixels"])

        def make():
            if sub == "AddNode":
                return fa.AddNode(tr, op["node"], dict(op["attrs"]), pixels=px)
            if sub == "DeleteNode":
                return fa.DeleteNode(tr, op["node"])
            if sub == "AddEdge":
                return fa.AddEdge(tr, tuple(op["edge"]), dict(op["attrs"]))
            if sub == "DeleteEdge":
                return fa.DeleteEdge(tr, tuple(op["edge"]))
            if sub == "UpdateNodeAttrs":
                return fa.UpdateNodeAttrs(tr, op["node"], dict(op["attrs"]))
            if sub == "UpdateTrackIDs":
                return fa.UpdateTrackIDs(tr, op["node"], op["tracklet_id"], op["lineage_id"])
            if sub == "UpdateNodeSeg":
                return fa.UpdateNodeSeg(tr, op["node"], px, added=op["added"])
            raise AssertionError(sub)

        # preconditions of the primitive must hold in *this* state (a replayed/minimised trace
        # may have drifted): otherwise the op is skipped
        g = tr.graph
        if sub == "AddNode" and (op["node"] in g or (px is not None and (tr.segmentation[px] != 0).any())):
            out.info["skipped"] = True
            return
        if sub in ("DeleteNode", "UpdateNodeAttrs", "UpdateTrackIDs", "UpdateNodeSeg") and op["node"] not in g:
            out.info["skipped"] = True
            return
        if sub == "DeleteNode" and g.degree(op["node"]) != 0:
            out.info["skipped"] = True
            return
        if sub == "AddEdge" and (any(n not in g for n in op["edge"]) or g.has_edge(*op["edge"])):
            out.info["skipped"] = True
            return
        if sub == "DeleteEdge" and not g.has_edge(*op["edge"]):
            out.info["skipped"] = True
            return
        if sub == "UpdateTrackIDs":
            import networkx as nx

            down = nx.descendants(g, op["node"]) | {op["node"]}
            if any(g.nodes[n].get(self.w.tkey) == op["tracklet_id"] for n in down):
                out.info["skipped"] = True
                return
        if sub == "UpdateNodeSeg":
            t = self.w.time(op["node"])
            vals = tr.segmentation[px]
            if op["added"] and (vals != 0).any():
                out.info["skipped"] = True
                return
            if not op["added"] and ((vals != op["node"]).any() or len(px[0]) >= int((tr.segmentation[t] == op["node"]).sum())):
                out.info["skipped"] = True
                return

        pre = C.canon(tr)
        ok, a = _safe(make)
        if not ok:
            self.rep(f"prim_raised:{sub}", f"primitive {sub} {op_brief(op)} raised {a!r} although its preconditions hold")
            return
        post = C.canon(tr)
        cur = a
        expected = [pre, post, pre]
        names = ["inverse", "inverse_of_inverse", "inverse_of_inverse_of_inverse"]
        for exp, name in zip(expected, names):
            ok, cur = _safe(cur.inverse)
            if not ok:
                self.rep(f"prim_{name}_raised:{sub}", f"{name} of primitive {sub} {op_brief(op)} raised {cur!r}")
                return
            d = C.canon_diff(exp, C.canon(tr))
            if d:
                self.rep(f"prim_{name}_mismatch:{sub}", f"{name} of primitive {sub} {op_brief(op)}: {d}")
                return
        self.col.event(f"prim:{sub}")
        if C.canon_diff(pre, post) is not None:
            self.col.nontrivial_case(("prim", sub, self._tags, self.w.cfg["seg"], self.w.ndim,
                                      op.get("added"), op.get("lineage_id") is not None))


# ========================================================================================
# C02: never-forgetting linear timeline
# ========================================================================================
class C02Oracle(Oracle):
    owns_history = True

    def start(self):
        self.timeline = [C.canon(self.w.tracks)]
        self.cur = 0
        self.letters: list[str] = []
        self.edit_after_undo = False
        self.undos_since_edit_after_undo = 0
        self.nontrivial = False

    def _expect(self, where):
        d = C.canon_diff(self.timeline[self.cur], C.canon(self.w.tracks))
        if d:
            self.rep(f"timeline_mismatch:{where}",
                     f"after {''.join(self.letters)} ({where}) the state differs from timeline[{self.cur}] "
                     f"of {len(self.timeline)}: {d}")
            return False
        return True

    def before(self, op, pre):
        self._full = C.full_snapshot(self.w.tracks) if op["op"] in ("undo", "redo") else None

    def after(self, op, out, pre, post):
        kind = op["op"]
        last = len(self.timeline) - 1
        if kind in EDIT_OPS:
            if not out.ok or out.info.get("noop"):
                self.letters.append("x")
                self._expect(f"refused_{kind}")
                return
            self.letters.append("E")
            if self.cur < last:
                self.timeline.extend(reversed(self.timeline[self.cur:last]))
                self.edit_after_undo = True
                self.undos_since_edit_after_undo = 0
            self.timeline.append(post)
            self.cur = len(self.timeline) - 1
            self.col.event(f"edit:{kind}")
            return
        if kind == "undo":
            self.letters.append("U")
            if not out.ok:
                self.rep("undo_raised", f"undo() raised {out.exc!r} after {''.join(self.letters)}")
                return
            exp = self.cur > 0
            if bool(out.result) != exp or out.result not in (True, False):
                self.rep("undo_return", f"undo() returned {out.result!r}, timeline says {exp} (cur={self.cur})")
                return
            if exp:
                self.cur -= 1
                if self.edit_after_undo:
                    self.undos_since_edit_after_undo += 1
                    if self.undos_since_edit_after_undo >= 2:
                        self.nontrivial = True
            else:
                self.col.event("undo_exhausted")
                d = C.full_diff(self._full, C.full_snapshot(self.w.tracks))
                if d:
                    self.rep("false_undo_changed_state", f"undo() returned False but changed: {d}")
                    return
            self._expect("undo")
        elif kind == "redo":
            self.letters.append("R")
            if not out.ok:
                self.rep("redo_raised", f"redo() raised {out.exc!r} after {''.join(self.letters)}")
                return
            exp = self.cur < last
            if bool(out.result) != exp or out.result not in (True, False):
                self.rep("redo_return", f"redo() returned {out.result!r}, timeline says {exp} (cur={self.cur}, last={last})")
                return
            if exp:
                self.cur += 1
                if self.edit_after_undo:
                    self.nontrivial = True
            else:
                self.col.event("redo_exhausted")
                d = C.full_diff(self._full, C.full_snapshot(self.w.tracks))
                if d:
                    self.rep("false_redo_changed_state", f"redo() returned False but changed: {d}")
                    return
            self._expect("redo")

    def finish(self):
        """'every state ever visited stays reachable by undoing far enough'."""
        tr = self.w.tracks
        while self.cur > 0:
            ok, r = _safe(tr.undo)
            self.col.evaluation()
            if not ok or r is not True:
                self.rep("final_unwind", f"undoing far enough: undo() gave {r!r} at timeline[{self.cur}]")
                return
            self.cur -= 1
            if not self._expect("final_unwind"):
                return
        ok, r = _safe(tr.undo)
        if not ok or r is not False:
            self.rep("final_unwind", f"undo() at the start of the timeline returned {r!r}")
            return
        if self.nontrivial:
            self.col.event("edit_after_undo_then_deep_undo")
            self.col.nontrivial_case(("walk", getattr(self, "label", None) or "".join(self.letters)))


# ========================================================================================
# C07: labels <-> nodes
# ========================================================================================
class C07Oracle(Oracle):
    def start(self):
        self._check("construction")

    def _check(self, where) -> bool:
        w = self.w
        tr = w.tracks
        seg = tr.segmentation
        labels = {int(x) for x in np.unique(seg).tolist()} - {0}
        nodes = set(w.nodes())
        if labels != nodes:
            self.rep(f"labels_vs_nodes:{where}",
                     f"after {where}: labels without node {sorted(labels - nodes)}, nodes without label {sorted(nodes - labels)}")
            return False
        for n in nodes:
            t = w.time(n)
            frames = [int(f) for f in range(seg.shape[0]) if (seg[f] == n).any()]
            if frames != [t]:
                self.rep(f"label_frames:{where}", f"after {where}: label {n} (node time {t}) occurs in frames {frames}")
                return False
            exp = np.nonzero(seg[t] == n)
            got = tr.get_pixels(n)
            ok = got is not None and len(got) == len(exp) + 1 and np.array_equal(np.asarray(got[0]), np.full(len(exp[0]), t))
            ok = ok and all(np.array_equal(np.asarray(a), b) for a, b in zip(got[1:], exp))
            if not ok:
                self.rep(f"get_pixels:{where}", f"after {where}: get_pixels({n}) is not exactly the node's pixels")
                return False
        return True

    def before(self, op, pre):
        if op["op"] == "paint":
            seg = self.w.tracks.segmentation
            t = op["time"]
            sp = tuple(np.asarray(a, dtype=np.int64) for a in op["pixels"])
            stroke = np.zeros(self.w.shape, dtype=bool)
            stroke[sp] = True
            partial = total = 0
            for n in {int(x) for x in np.unique(seg[t][stroke]).tolist()} - {0, int(op["value"])}:
                if ((seg[t] == n) & ~stroke).any():
                    partial += 1
                else:
                    total += 1
            v = op["value"]
            vclass = "erase" if v == 0 else ("existing" if v in self.w.tracks.graph else "new")
            self._desc = (vclass, min(partial, 2), min(total, 2), self.w.ndim)

    def after(self, op, out, pre, post):
        kind = op["op"]
        tr = self.w.tracks
        if not self._check(kind if out.ok else f"refused_{kind}"):
            return
        if kind != "paint" or not out.ok or out.info.get("noop"):
            return
        painted = out.info["painted"]
        if not np.array_equal(tr.segmentation, painted):
            idx = np.argwhere(tr.segmentation != painted)
            self.rep("paint_not_as_painted", f"paint {op_brief(op)}: array differs from the painted array at {len(idx)} pixels, first {idx[0].tolist()}")
            return
        ok, r = _safe(tr.undo)
        if not ok or r is not True:
            self.rep("paint_undo_failed", f"undo of paint {op_brief(op)}: {r!r}")
            return
        if not np.array_equal(tr.segmentation, pre["seg"]):
            idx = np.argwhere(tr.segmentation != pre["seg"])
            self.rep("paint_undo_not_bit_exact", f"undo of paint {op_brief(op)}: array differs from the previous array at {len(idx)} pixels, first {idx[0].tolist()}")
            return
        if not self._check("undo_of_paint"):
            return
        ok, r = _safe(tr.redo)
        if not ok or r is not True:
            self.rep("paint_redo_failed", f"redo of paint {op_brief(op)}: {r!r}")
            return
        if not np.array_equal(tr.segmentation, painted):
            self.rep("paint_redo_not_bit_exact", f"redo of paint {op_brief(op)}: array differs from the painted array")
            return
        vclass, partial, total, nd = self._desc
        self.col.event(f"paint:{vclass}")
        if partial or total:
            self.col.event(f"paint:overwrite:partial={partial}:total={total}")
            self.col.nontrivial_case(("paint", self._desc, bool(op.get("force")), op.get("order")))


# ========================================================================================
# C08 / C09 / C10: measurements
# ========================================================================================
REGION_KEYS = ("area", "ellipse_axis_radii", "circularity", "perimeter")


def _ref_key(world, key):
    return "pos" if key == world.pos_key else key


def node_feature_mismatch(world, keys, nodes=None) -> str | None:
    """Compare stored values of regionprops keys with the independent references."""
    tr = world.tracks
    sp = world.spacing()
    for n in (world.nodes() if nodes is None else nodes):
        mask = world.mask(n)
        if not mask.any():
            return f"node {n} has no pixels"
        for k in keys:
            stored = tr.graph.nodes[n].get(k)
            ref = refs.shape_reference(mask, sp, _ref_key(world, k))
            if ref is None:
                continue  # reference undefined for this (degenerate) mask
            if not refs.close(C.norm(stored), C.norm(ref)):
                return f"node {n} {k}: stored {stored!r} != reference {ref!r}"
    return None


def edge_iou_mismatch(world, key="iou") -> str | None:
    tr = world.tracks
    for u, v in world.edges():
        stored = tr.graph.edges[u, v].get(key)
        ref = refs.iou(world.mask(u), world.mask(v))
        if stored is None or not refs.close(float(stored), float(ref)):
            return f"edge ({u},{v}) t={world.time(u)}->{world.time(v)}: stored iou {stored!r} != {float(ref)!r} ({ref})"
    return None


def bulk_mismatch(world, keys) -> str | None:
    """Differential: the same keys computed from scratch (bulk path) on copies."""
    import networkx as nx
    from funtracks.data_model import Tracks

    tr = world.tracks
    g = nx.DiGraph()
    for n in tr.graph.nodes:
        g.add_node(n, **{world.time_key: world.time(n)})
    g.add_edges_from(tr.graph.edges)
    with warnings.catch_warnings():
        warnings.simplefilter("ignore")
        fresh = Tracks(g, segmentation=tr.segmentation.copy(), time_attr=world.time_key,
                       pos_attr=world.pos_key, scale=None if tr.scale is None else list(tr.scale),
                       ndim=world.ndim)
        extra = [k for k in keys if k not in fresh.features]
        if extra:
            fresh.enable_features(extra)
    for n in tr.graph.nodes:
        for k in keys:
            if k == "iou":
                continue
            a, b = tr.graph.nodes[n].get(k), g.nodes[n].get(k)
            if not refs.close(C.norm(a), C.norm(b)):
                return f"node {n} {k}: incremental {a!r} != from-scratch {b!r}"
    if "iou" in keys:
        for u, v in tr.graph.edges:
            a, b = tr.graph.edges[u, v].get("iou"), g.edges[u, v].get("iou")
            if not refs.close(a, b):
                return f"edge ({u},{v}) iou: incremental {a!r} != from-scratch {b!r}"
    return None


class C08Oracle(Oracle):
    extra_ops = {"feature_toggle": 1}

    def gen_extra(self, kind, rnd):
        from .world import _pick

        tr = self.w.tracks
        avail = [k for k in tr.annotators.all_features if k in REGION_KEYS and k != "area"]
        iso = tr.scale is None or len(set(tr.scale[1:])) == 1
        if self.w.ndim == 3 and not iso:
            avail = [k for k in avail if k not in ("circularity", "perimeter")]
        if not avail:
            return None
        k = _pick(rnd, sorted(avail))
        return {"op": "feature_toggle", "key": k, "mode": "disable" if k in tr.annotators.features else "enable"}

    def apply_extra(self, op, out):
        tr = self.w.tracks
        on = op["key"] in tr.annotators.features
        with warnings.catch_warnings():
            warnings.simplefilter("ignore")
            if op["mode"] == "disable" and on:
                tr.disable_features([op["key"]])
            elif op["mode"] == "enable" and not on:
                tr.enable_features([op["key"]])
                self.col.event("re_enable_feature")

    def _keys(self):
        feats = self.w.tracks.annotators.features
        return [k for k in feats if k in REGION_KEYS or k == self.w.pos_key]

    def start(self):
        self._step = 0
        m = node_feature_mismatch(self.w, self._keys())
        if m:
            self.rep("construction", f"after construction: {m}")

    def after(self, op, out, pre, post):
        kind = op["op"]
        self._step += 1
        where = kind if out.ok else f"refused_{kind}"
        keys = self._keys()
        m = node_feature_mismatch(self.w, keys)
        if m:
            self.rep(f"stale_measurement:{where}", f"after {where} {op_brief(op)}: {m}")
            return
        seg_changed = pre["seg"] is not None and not np.array_equal(pre["seg"], post["seg"])
        if seg_changed:
            changed_nodes = []
            for n in post["nodes"]:
                t = self.w.time(n)
                a = pre["seg"][t] == n
                b = post["seg"][t] == n
                if not np.array_equal(a, b):
                    ca, cb = int(a.sum()), int(b.sum())
                    changed_nodes.append("new" if ca == 0 else ("grown" if cb > ca else ("shrunk" if cb < ca else "moved")))
            if self._step % 3 == 0 or kind in ("undo", "redo"):
                m = bulk_mismatch(self.w, keys)
                self.col.event("bulk_differential")
                if m:
                    self.rep(f"bulk_vs_incremental:{where}", f"after {where} {op_brief(op)}: {m}")
                    return
            if changed_nodes:
                sc = "none" if self.w.tracks.scale is None else ("aniso" if len(set(self.w.tracks.scale[1:])) > 1 else "iso")
                for ch in set(changed_nodes):
                    self.col.event(f"mask_change:{ch}")
                self.col.nontrivial_case((tuple(sorted(keys)), sc, tuple(sorted(set(changed_nodes))), kind, self.w.ndim))


class C09Oracle(Oracle):
    extra_ops = {"iou_toggle": 1}
    extra_may_raise = ("iou_toggle",)

    def _on(self):
        return "iou" in self.w.tracks.annotators.features

    def start(self):
        self._how = {}  # edge -> 'bulk' | 'incremental'
        if self._on():
            m = edge_iou_mismatch(self.w)
            self.col.event("iou_bulk_at_construction")
            self._classify("bulk")
            if m:
                self.rep("bulk_at_construction", f"after construction (bulk computation): {m}")

    def gen_extra(self, kind, rnd):
        r = rnd.random()
        return {"op": "iou_toggle", "mode": "enable" if not self._on() else ("disable" if r < 0.3 else "recompute")}

    def apply_extra(self, op, out):
        tr = self.w.tracks
        with warnings.catch_warnings():
            warnings.simplefilter("ignore")
            if op["mode"] == "disable":
                tr.disable_features(["iou"])
            else:
                tr.enable_features(["iou"])
        out.info["bulk"] = op["mode"] != "disable"

    def _classify(self, how):
        w = self.w
        for u, v in w.edges():
            r = refs.iou(w.mask(u), w.mask(v))
            skip = w.time(v) - w.time(u) > 1
            if 0 < r < 1:
                self.col.event(f"iou_edge:{'skip' if skip else 'consecutive'}:{how}")
                self.col.nontrivial_case((how, skip, r.numerator, r.denominator))
            elif skip:
                self.col.event(f"iou_edge:skip:{how}:trivial")

    def after(self, op, out, pre, post):
        if not out.ok and (op["op"] == "iou_toggle" or (op["op"] == "enable" and op["keys"] == ["iou"])):
            # tracks with a label image offer the IoU feature in every state (also without edges)
            self.rep(f"iou_switch_raised:{op.get('mode', 'enable')}",
                     f"switching the IoU feature ({op.get('mode', 'enable')}) raised {out.exc!r} "
                     f"({self.w.tracks.graph.number_of_edges()} edges)")
            return
        if not self._on():
            return
        kind = op["op"]
        how = "bulk" if out.info.get("bulk") else "incremental"
        where = (kind if out.ok else f"refused_{kind}") + (f":{op['mode']}" if kind == "iou_toggle" else "")
        m = edge_iou_mismatch(self.w)
        if m:
            self.rep(f"iou_mismatch:{how}:{where}", f"after {where} {op_brief(op)} ({how}): {m}")
            return
        self._classify(how)


class C10Oracle(Oracle):
    # no hand-over on refusals: after enable_features(recompute=False) stored values may be stale
    # by the caller's choice, and the roll-back of a refused edit legitimately re-measures them
    owns_atomicity = True
    extra_ops = {"enable_norecompute": 1.5, "core_toggle": 1.0}
    extra_may_raise = ("core_toggle",)

    def _core_ids(self):
        w = self.w
        return [k for k in ([w.tkey] + ([w.lkey] if w.lkey else [])) if k in self.managed]

    def gen_extra(self, kind, rnd):
        from .world import _gen_toggle

        if kind == "core_toggle":
            # the track / lineage id features switched off one at a time in the middle of a
            # session (edits go on; the ids are then stale by the caller's choice), and on again
            core = self._core_ids()
            off = [k for k in core if k not in self.model]
            if off:
                return {"op": "core_toggle", "mode": "enable", "keys": off}
            if not core:
                return None
            r = rnd.random()
            keys = [core[0]] if r < 0.5 or len(core) == 1 else ([core[1]] if r < 0.75 else list(core))
            return {"op": "core_toggle", "mode": "disable", "keys": keys}
        op = _gen_toggle(self.w, rnd, "enable", False)
        if not op["keys"]:
            return None
        return {"op": "enable_norecompute", "keys": op["keys"]}

    def apply_extra(self, op, out):
        if op["op"] == "core_toggle":
            with warnings.catch_warnings():
                warnings.simplefilter("ignore")
                if op["mode"] == "disable":
                    self.w.tracks.disable_features(list(op["keys"]))
                else:
                    self.w.tracks.enable_features(list(op["keys"]))
            return
        # "assume the values already exist": registers and activates, computes nothing; the values
        # of keys that were off may be stale until the next enable *with* recomputation
        with warnings.catch_warnings():
            warnings.simplefilter("ignore")
            self.w.tracks.enable_features(list(op["keys"]), recompute=False)
        for k in op["keys"]:
            if k not in self.model:
                self.unverified.add(k)
        self.model |= set(op["keys"])
        self.col.event("enable_without_recompute")

    def start(self):
        tr = self.w.tracks
        self.managed = set(tr.annotators.all_features.keys())
        self.static = set(tr.features.keys()) - self.managed
        self.model = set(tr.annotators.features.keys())
        self.since: dict[str, int] = {}
        self.unverified: set[str] = set()  # enabled with recompute=False: values not (yet) asserted
        self._check_registry("construction")
        self._frozen = None

    def _check_registry(self, where) -> bool:
        tr = self.w.tracks
        act = set(tr.annotators.features.keys())
        if act != self.model:
            self.rep(f"active_set:{where}", f"after {where}: active annotator features {sorted(act)} != model {sorted(self.model)}")
            return False
        reg = set(tr.features.keys())
        if reg != self.static | self.model:
            self.rep(f"registry:{where}", f"after {where}: registry {sorted(reg)} != static+enabled {sorted(self.static | self.model)}")
            return False
        return True

    def _values_ok(self, keys, where) -> bool:
        w = self.w
        keys = [k for k in keys if k not in self.unverified]
        if w.tracks.segmentation is not None:
            nk = [k for k in keys if k in REGION_KEYS or k == w.pos_key]
            m = node_feature_mismatch(w, nk)
            if not m and "iou" in keys:
                m = edge_iou_mismatch(w)
            if m:
                self.rep(f"recomputed_value:{where}", f"after {where}: {m}")
                return False
        return True

    def before(self, op, pre):
        self._full = C.full_snapshot(self.w.tracks)
        tr = self.w.tracks
        dis = sorted(self.managed - self.model)
        g = tr.graph
        # (the attribute dict's identity tells whether the element itself survived the edit)
        self._frozen = (dis, {n: (id(g.nodes[n]), {k: C.norm(g.nodes[n].get(k, "<absent>")) for k in dis}) for n in g.nodes},
                        {e: (id(g.edges[e]), {k: C.norm(g.edges[e].get(k, "<absent>")) for k in dis}) for e in g.edges})

    def after(self, op, out, pre, post):
        kind = op["op"]
        tr = self.w.tracks
        where = kind if out.ok else f"refused_{kind}"
        if kind == "core_toggle":
            if not out.ok:
                self.rep(f"core_toggle_raised:{op['mode']}", f"{op['mode']}_features({op['keys']}) raised {out.exc!r}")
                return
            if op["mode"] == "disable":
                self.model -= set(op["keys"])
                self.col.event("core_disabled_mid_session:" + ("both" if len(op["keys"]) > 1 else
                                                               ("tracklet" if op["keys"][0] == self.w.tkey else "lineage")))
                self._check_registry("disable_core_mid_session")
                return
            self.model |= set(op["keys"])
            if not self._check_registry("enable_core_mid_session"):
                return
            st = C.canon(tr)
            for k in op["keys"]:
                classes = refs.tracklets(st["nodes"], st["edges"]) if k == self.w.tkey else refs.lineages(st["nodes"], st["edges"])
                mm = refs.partition_mismatch({n: a.get(k) for n, a in st["nodes"].items()}, classes)
                if mm:
                    self.rep(f"core_recompute_mid_session:{'tracklet' if k == self.w.tkey else 'lineage'}",
                             f"after re-enabling {k} (recomputation) in the middle of a session: {mm}")
                    return
            self.col.event("core_reenabled_mid_session")
            for k in op["keys"]:
                self.since[k] = 0
            return
        if kind in ("enable", "disable"):
            unknown = [k for k in op["keys"] if k not in self.managed]
            if unknown:
                self.col.event(f"unknown_key:{kind}")
                if out.ok or out.exc_name != "KeyError":
                    self.rep(f"unknown_key_not_keyerror:{kind}", f"{kind}_features({op['keys']}) with unknown key: {'accepted' if out.ok else repr(out.exc)}")
                    return
                d = C.full_diff(self._full, C.full_snapshot(tr))
                if d:
                    self.rep(f"unknown_key_changed_state:{kind}", f"{kind}_features({op['keys']}) raised KeyError but changed: {d}")
                    return
                self.col.nontrivial_case((kind, "unknown", len(op["keys"]), op["keys"].index("no_such_feature")))
            elif not out.ok:
                self.rep(f"toggle_raised:{kind}", f"{kind}_features({op['keys']}) raised {out.exc!r}")
                return
            elif kind == "enable":
                stale = [k for k in op["keys"] if self.since.get(k, 0) > 0]
                if self.unverified & set(op["keys"]):
                    self.col.event("recompute_after_enable_without_recompute")
                self.unverified -= set(op["keys"])  # recomputation makes every value current again
                self.model |= set(op["keys"])
                if not self._check_registry(where) or not self._values_ok(op["keys"], where):
                    return
                self.col.event("enable")
                if stale:
                    self.col.event("enable_after_edits")
                    self.col.nontrivial_case(("enable", tuple(sorted(op["keys"])), tuple(min(self.since.get(k, 0), 5) for k in sorted(op["keys"])),
                                              self.w.ndim, self.w.cfg["route"]))
                for k in op["keys"]:
                    self.since[k] = 0
            else:
                self.model -= set(op["keys"])
                self.unverified -= set(op["keys"])
                self.col.event("disable")
            self._check_registry(where)
            return
        if kind == "attrs":
            prot = [k for k in op["attrs"] if k in self.managed or k == self.w.time_key]
            if prot and op["node"] in pre["nodes"]:
                self.col.event("protected_attr:" + ("enabled" if prot[0] in self.model or prot[0] == self.w.time_key else "disabled"))
                self.col.nontrivial_case(("protected", prot[0] in self.model, len(op["attrs"]), list(op["attrs"]).index(prot[0])))
                if out.ok:
                    self.rep("protected_attr_accepted", f"attrs {op['attrs']} on node {op['node']} was accepted although {prot} is managed/time")
                    return
                d = C.full_diff(self._full, C.full_snapshot(tr))
                if d:
                    self.rep("protected_attr_changed_state", f"refused attrs {op['attrs']} changed: {d}")
                    return
        if not self._check_registry(where):
            return
        if not out.ok and any(k not in self.model for k in self._core_ids()):
            # While the track / lineage ids are switched off the id lookups are not maintained, so
            # user actions can fail half-way on them (KeyError from a stale lookup); what their
            # roll-back re-measures is outside the property. Values are asserted again after the
            # next enable with recomputation.
            self.unverified |= {k for k in self.model if k not in self._core_ids()}
            self.col.event("refusal_while_core_ids_off")
            return
        # enabled features keep tracking the state
        if not self._values_ok(sorted(self.model), where):
            return
        # disabled features are no longer changed by edits
        dis, nvals, evals = self._frozen
        if kind in EDIT_OPS and out.ok:
            g = tr.graph
            for n, (ident, vals) in nvals.items():
                if n in g and id(g.nodes[n]) == ident:
                    for k in dis:
                        now = C.norm(g.nodes[n].get(k, "<absent>"))
                        if now != vals[k]:
                            self.rep(f"disabled_feature_changed:{kind}", f"{kind} {op_brief(op)} changed disabled feature {k} of node {n}: {vals[k]!r} -> {now!r}")
                            return
            for e, (ident, vals) in evals.items():
                if g.has_edge(*e) and id(g.edges[e]) == ident:
                    for k in dis:
                        now = C.norm(g.edges[e].get(k, "<absent>"))
                        if now != vals[k]:
                            self.rep(f"disabled_feature_changed:{kind}", f"{kind} {op_brief(op)} changed disabled feature {k} of edge {e}: {vals[k]!r} -> {now!r}")
                            return
            if C.canon_diff(pre, post) is not None or (pre["seg"] is not None and not np.array_equal(pre["seg"], post["seg"])):
                for k in self.managed:
                    self.since[k] = self.since.get(k, 0) + 1
                if dis:
                    self.col.event("edit_with_disabled_feature")

    def finish(self):
        """Registry-level toggling of the core id / position features (no edits follow)."""
        w = self.w
        tr = w.tracks
        core = [w.tkey] + ([w.lkey] if w.lkey else [])
        if tr.segmentation is not None and isinstance(w.pos_key, str):
            core += [w.pos_key, "area"]
        core = [k for k in core if k in self.managed]
        off = [k for k in self._core_ids() if k not in self.model]
        if off:
            ok, r = _safe(lambda: tr.enable_features(off))
            if not ok:
                self.rep("core_toggle_raised", f"enable_features({off!r}) raised {r!r}")
                return
            self.model |= set(off)
        for k in core:
            ok, r = _safe(lambda k=k: tr.disable_features([k]))
            self.col.evaluation()
            if not ok:
                self.rep("core_toggle_raised", f"disable_features([{k!r}]) raised {r!r}")
                return
            self.model.discard(k)
            if not self._check_registry(f"disable_core:{k}"):
                return
            ok, r = _safe(lambda k=k: tr.enable_features([k]))
            if not ok:
                self.rep("core_toggle_raised", f"enable_features([{k!r}]) raised {r!r}")
                return
            self.model.add(k)
            if not self._check_registry(f"enable_core:{k}"):
                return
            st = C.canon(tr)
            if k == w.tkey:
                mm = refs.partition_mismatch({n: a.get(k) for n, a in st["nodes"].items()}, refs.tracklets(st["nodes"], st["edges"]))
            elif k == w.lkey:
                mm = refs.partition_mismatch({n: a.get(k) for n, a in st["nodes"].items()}, refs.lineages(st["nodes"], st["edges"]))
            else:
                mm = node_feature_mismatch(w, [k])
            if mm:
                self.rep(f"core_recompute:{k}", f"after re-enabling {k}: {mm}")
                return
            self.col.event("core_toggle")


# ========================================================================================
# C16: read-only operations do not modify the tracks
# ========================================================================================
RO_OPS = ["export_csv", "export_csv_colors", "export_csv_display", "export_csv_subset", "export_csv_seg", "export_geff",
          "export_geff_subset", "export_geff_v3", "save_tracks", "queries_track", "queries_graph",
          "queries_attrs", "deprecated_export_tracks", "export_csv_track", "export_geff_track"]


class C16Oracle(Oracle):
    extra_ops = {"ro": 6}

    def gen_extra(self, kind, rnd):
        from .world import _pick

        name = _pick(rnd, RO_OPS)
        nodes = self.w.nodes()
        subset = sorted({_pick(rnd, nodes) for _ in range(rnd.randint(1, 3))}) if nodes else []
        return {"op": "ro", "name": name, "subset": subset, "t": rnd.randint(-1, self.w.frames),
                "tid": rnd.randint(0, 12)}

    @staticmethod
    def _id_counters(tr):
        ann = getattr(tr, "track_annotator", None)
        if ann is None:
            return None
        return (int(ann.max_tracklet_id), int(ann.max_lineage_id))

    def apply_extra(self, op, out):
        import shutil
        import tempfile
        from pathlib import Path

        w = self.w
        tr = w.tracks
        name = op["name"]
        if name.startswith("export_csv_seg") and tr.segmentation is None:
            name = "export_csv"
        if not w.nodes() and name.startswith("export"):
            out.info["skipped"] = True
            return
        before = C.full_snapshot(tr)
        counters0 = self._id_counters(tr)
        tmp = Path(tempfile.mkdtemp(prefix="verif-c16-"))
        ok, r = _safe(lambda: self._run(name, op, tmp))
        shutil.rmtree(tmp, ignore_errors=True)
        after = C.full_snapshot(tr)
        d = C.full_diff(before, after, strict_lookups=True)  # a query must not even add an empty entry
        counters1 = self._id_counters(tr)
        if d is None and counters0 != counters1:
            # the id counters belong to the track lookups: what the tracks hand out as the
            # next free track / lineage id must not depend on whether somebody asked before
            d = f"track lookup id counters (max track id, max lineage id): {counters0} -> {counters1}"
        scale_tag = "scale=None" if before["scale"] is None else "scale=given"
        self.col.event(f"ro:{name}:{'ok' if ok else 'raised'}")
        if not ok:
            out.info["ro_exception"] = repr(r)
        if d:
            self.rep(f"modified_by:{name}", f"read-only operation {name} ({scale_tag}, subset={op['subset']}) changed the tracks: {d}")
            return
        if len(w.edges()) >= 1:
            self.col.nontrivial_case((name, scale_tag, w.cfg["seg"], w.ndim, w.cfg["pos_mode"], bool(op["subset"]),
                                      min(len(tr.action_history.undo_stack), 3)))

    def _run(self, name, op, tmp):
        from funtracks.import_export import export_to_csv, export_to_geff, save_tracks

        tr = self.w.tracks
        subset = set(op["subset"]) & set(self.w.nodes())
        if name == "export_csv":
            export_to_csv(tr, tmp / "a.csv")
        elif name == "export_csv_colors":
            colors = {n: np.array([(n % 7) / 7.0, 0.5, 1.0, 1.0]) for n in self.w.nodes()}
            export_to_csv(tr, tmp / "a.csv", color_dict=colors)
        elif name == "export_csv_display":
            export_to_csv(tr, tmp / "a.csv", use_display_names=True)
        elif name == "export_csv_subset":
            export_to_csv(tr, tmp / "a.csv", node_ids=subset)
        elif name == "export_csv_seg":
            export_to_csv(tr, tmp / "a.csv", export_seg=True, seg_path=tmp / "seg.tif")
        elif name == "export_geff":
            export_to_geff(tr, tmp / "g")
        elif name == "export_geff_subset":
            export_to_geff(tr, tmp / "g", node_ids=subset)
        elif name in ("export_csv_track", "export_geff_track"):
            # "export this track": the selection is the list the tracks hand out for a track id
            # (or a lineage), passed on as it is
            lookups = [tr.track_id_to_node] + ([tr.track_annotator.lineage_id_to_nodes] if op["t"] % 2 else [])
            lookup = lookups[-1]
            keys = sorted(lookup, key=repr)
            if not keys:
                return
            sel = lookup[keys[op["tid"] % len(keys)]]
            if name == "export_csv_track":
                export_to_csv(tr, tmp / "a.csv", node_ids=sel)
            else:
                export_to_geff(tr, tmp / "g", node_ids=sel)
        elif name == "export_geff_v3":
            export_to_geff(tr, tmp / "g", zarr_format=3)
        elif name == "save_tracks":
            save_tracks(tr, tmp / "s")
        elif name == "deprecated_export_tracks":
            tr.export_tracks(tmp / "d.csv")
        elif name == "queries_track":
            for tid in {op["tid"], int(tr.get_next_track_id()), *self.w.track_ids()[:3]}:
                tr.get_track_neighbors(tid, op["t"])
                tr.has_track_id_at_time(tid, op["t"])
            tr.get_next_track_id()
            tr.get_next_lineage_id()
            _ = tr.max_track_id
            _ = dict(tr.track_id_to_node)
        elif name == "queries_graph":
            ns = tr.nodes()
            tr.edges()
            tr.in_degree()
            tr.out_degree()
            if len(ns):
                tr.in_degree(ns)
                tr.out_degree(ns)
            for n in self.w.nodes()[:4]:
                tr.predecessors(n)
                tr.successors(n)
            tr.get_available_features()
        elif name == "queries_attrs":
            ns = self.w.nodes()
            if ns:
                tr.get_positions(ns)
                tr.get_positions(ns, incl_time=True)
                tr.get_position(ns[0], incl_time=True)
                tr.get_times(ns)
                tr.get_time(ns[0])
                tr.get_pixels(ns[-1])
                tr.get_track_id(ns[0])
                tr.get_lineage_id(ns[0])
                tr.get_nodes_attr(ns, CUSTOM_NODE)
                tr.get_node_attr(ns[0], "nope")
            for e in self.w.edges()[:3]:
                tr.get_edge_attr(e, "iou")
                tr.get_edges_attr([e], "ew")
        else:
            raise AssertionError(name)


# ========================================================================================
# C14: export o import = identity
# ========================================================================================
def _sweep_stale_homes(max_age=900.0):
    """Project directories of walks whose worker process was stopped mid-walk (budget reached) are
    not removed by the oracle: take away those older than any walk can be."""
    import glob
    import shutil
    import tempfile
    import time

    now = time.time()
    for d in glob.glob(os.path.join(tempfile.gettempdir(), "verif-c14-home-*")):
        try:
            if now - os.path.getmtime(d) > max_age:
                shutil.rmtree(d, ignore_errors=True)
        except OSError:
            pass


class C14Oracle(Oracle):
    extra_ops = {"roundtrip": 3}

    def start(self):
        self._edits = 0

    def after(self, op, out, pre, post):
        if op["op"] in EDIT_OPS and out.ok and not out.info.get("noop"):
            self._edits += 1

    def gen_extra(self, kind, rnd):
        fmt = rnd.choice(["csv", "geff", "internal", "geff", "csvdisplay", "internal"])
        op = {"op": "roundtrip", "fmt": fmt, "zarr": rnd.choice([2, 2, 3])}
        if fmt == "internal" and rnd.random() < 0.5:
            # "save" rather than "save as": the same project directory is written again and again
            # during the session (save_tracks rewrites every file of it), other saves go elsewhere
            op["home"] = True
        return op

    def finish(self):
        from .world import Outcome

        for fmt in ("csv", "geff", "internal"):
            if not self.w.trace or self.w.trace[-1].get("fmt") != fmt:
                self.col.evaluation()
                op = {"op": "roundtrip", "fmt": fmt, "zarr": 2}
                if fmt == "internal" and getattr(self, "_home", None) is not None:
                    op["home"] = True  # the session ends with a save into its project directory
                self.apply_extra(op, Outcome(ok=True))
        self.close()

    def close(self):
        if getattr(self, "_home", None) is not None:
            self._home.cleanup()
            self._home = None

    # ---- helpers -----------------------------------------------------------------------
    def _positions_on_labels(self) -> bool:
        """import validates that the (scaled, truncated) position of the last node lies on its
        label: with a non-convex mask this is refused by design."""
        w = self.w
        tr = w.tracks
        scale = [1.0] * w.ndim if tr.scale is None else list(tr.scale)
        for n in w.nodes():
            pos = tr.get_position(n)
            idx = tuple(int(c / s) for c, s in zip(pos, scale[1:]))
            if any(i < 0 or i >= m for i, m in zip(idx, w.shape)):
                return False
            if tr.segmentation[w.time(n)][idx] != n:
                return False
        return True

    def _shape_desc(self):
        w = self.w
        g = w.tracks.graph
        div = sum(1 for n in g if g.out_degree(n) == 2)
        skip = sum(1 for u, v in g.edges if w.time(v) - w.time(u) > 1)
        iso = sum(1 for n in g if g.degree(n) == 0)
        ids = w.nodes()
        noncontig = bool(ids) and ids != list(range(1, len(ids) + 1))
        return (min(div, 2), min(skip, 2), min(iso, 2), noncontig, min(len(ids), 6))

    def apply_extra(self, op, out):
        import shutil
        import tempfile
        from pathlib import Path

        w = self.w
        if not w.nodes():
            self.col.exclude("roundtrip_of_empty_tracks")
            return
        fmt = op["fmt"]
        tmp = Path(tempfile.mkdtemp(prefix="verif-c14-"))
        try:
            ok, r = _safe(lambda: getattr(self, f"_rt_{fmt}")(tmp, op))
        finally:
            shutil.rmtree(tmp, ignore_errors=True)
        if not ok:
            self.rep(f"roundtrip_raised:{fmt}:{type(r).__name__}", f"{fmt} round trip raised {r!r} (after {self._edits} edits)")
            return
        if r:
            self.rep(f"roundtrip_mismatch:{fmt}:{r[0]}", f"{fmt} round trip (after {self._edits} edits): {r[1]}")
            return
        self.col.event(f"roundtrip:{fmt}")
        desc = self._shape_desc()
        if (len(w.edges()) >= 1 and self._edits >= 1) or desc[0] or desc[1] or desc[2] or desc[3]:
            self.col.nontrivial_case((fmt, w.cfg["seg"], w.ndim, w.cfg["pos_mode"], w.tracks.scale is None,
                                      desc, min(self._edits, 3)))
            if self._edits:
                self.col.event("roundtrip_after_edits")

    def _compare_basic(self, imp, check_lineage, pos_exact=False):
        """nodes, edges, time, position, track ids (and lineage ids) of an imported solution."""
        w = self.w
        tr = w.tracks
        a_nodes = set(w.nodes())
        b_nodes = {int(n) for n in imp.graph.nodes}
        if a_nodes != b_nodes:
            return ("nodes", f"nodes {sorted(b_nodes)} != {sorted(a_nodes)}")
        b_edges = {(int(u), int(v)) for u, v in imp.graph.edges}
        if set(w.edges()) != b_edges:
            return ("edges", f"edges {sorted(b_edges)} != {w.edges()}")
        for n in a_nodes:
            if int(imp.get_time(n)) != w.time(n):
                return ("time", f"node {n}: time {imp.get_time(n)} != {w.time(n)}")
            pa, pb = tr.get_position(n), imp.get_position(n)
            if not refs.close(pa, pb, rtol=1e-9 if not pos_exact else 0, atol=1e-9):
                return ("position", f"node {n}: position {pb} != {pa}")
            if int(imp.get_track_id(n)) != int(tr.get_track_id(n)):
                return ("track_id", f"node {n}: track id {imp.get_track_id(n)} != {tr.get_track_id(n)}")
            if check_lineage and tr.get_lineage_id(n) is not None:
                lb = imp.get_lineage_id(n)
                if lb is None or int(lb) != int(tr.get_lineage_id(n)):
                    return ("lineage_id", f"node {n}: lineage id {lb} != {tr.get_lineage_id(n)}")
        return None

    def _rt_csv(self, tmp, op):
        import pandas as pd

        from funtracks.import_export import export_to_csv, tracks_from_df

        w = self.w
        tr = w.tracks
        export_to_csv(tr, tmp / "t.csv")
        df = pd.read_csv(tmp / "t.csv")
        axes = ["z", "y", "x"][-(w.ndim - 1):]
        nm = {"time": "t", "pos": axes, "id": "id", "parent_id": "parent_id", "track_id": "track_id"}
        seg = None
        if tr.segmentation is not None and self._positions_on_labels():
            seg = tr.segmentation.copy()
        elif tr.segmentation is not None:
            self.col.exclude("csv_with_seg:position_not_on_label")
        with warnings.catch_warnings():
            warnings.simplefilter("ignore")
            imp = tracks_from_df(df, segmentation=seg, scale=None if tr.scale is None else list(tr.scale),
                                 node_name_map=nm)
        bad = self._compare_basic(imp, check_lineage=False)
        if bad:
            return bad
        if seg is not None and not np.array_equal(np.asarray(imp.segmentation).astype(np.int64), tr.segmentation.astype(np.int64)):
            return ("segmentation", "segmentation differs after CSV import")
        return None

    def _rt_csvdisplay(self, tmp, op):
        """CSV written with display names as headers, read back with the matching map."""
        import pandas as pd

        from funtracks.import_export import export_to_csv, tracks_from_df

        w = self.w
        tr = w.tracks
        export_to_csv(tr, tmp / "d.csv", use_display_names=True)
        df = pd.read_csv(tmp / "d.csv")
        feats = tr.features

        def col(key):
            return feats[key].get("display_name", key)

        pk = w.pos_key
        if isinstance(pk, list):
            pos_cols = [col(k) for k in pk]
        else:
            pos_cols = list(feats[pk].get("value_names") or [])
        nm = {"time": col(w.time_key), "pos": pos_cols, "id": "ID", "parent_id": "Parent ID",
              "track_id": col(w.tkey)}
        with warnings.catch_warnings():
            warnings.simplefilter("ignore")
            imp = tracks_from_df(df, scale=None if tr.scale is None else list(tr.scale), node_name_map=nm)
        return self._compare_basic(imp, check_lineage=False)

    def _rt_geff(self, tmp, op):
        from funtracks.import_export import export_to_geff, import_from_geff

        w = self.w
        tr = w.tracks
        export_to_geff(tr, tmp / "g", zarr_format=op.get("zarr", 2))
        pk = w.pos_key
        axes = list(pk) if isinstance(pk, list) else ["z", "y", "x"][-(w.ndim - 1):]
        nm = {"time": w.time_key, "pos": axes, "track_id": w.tkey}
        if w.lkey:
            nm["lineage_id"] = w.lkey
        g = tr.graph
        have_score = [n for n in g if g.nodes[n].get(CUSTOM_NODE) is not None]
        node_features = {}
        if have_score:
            nm[CUSTOM_NODE] = CUSTOM_NODE
            node_features[CUSTOM_NODE] = False
        seg_path = None
        loaded = []
        if tr.segmentation is not None:
            if self._positions_on_labels():
                seg_path = tmp / "g" / "segmentation"
                for k in ("area", "ellipse_axis_radii", "circularity", "perimeter"):
                    if k in tr.features:
                        node_features[k] = False
                        loaded.append(k)
            else:
                self.col.exclude("geff_with_seg:position_not_on_label")
        scale = [1.0] * w.ndim if tr.scale is None else list(tr.scale)
        with warnings.catch_warnings():
            warnings.simplefilter("ignore")
            imp = import_from_geff(tmp / "g" / "tracks", node_name_map=nm, segmentation_path=seg_path,
                                   scale=scale, node_features=node_features or None)
        bad = self._compare_basic(imp, check_lineage=True)
        if bad:
            return bad
        for n in have_score:
            if not refs.close(imp.graph.nodes[n].get(CUSTOM_NODE), g.nodes[n][CUSTOM_NODE], rtol=0, atol=0):
                return ("custom_feature", f"node {n}: score {imp.graph.nodes[n].get(CUSTOM_NODE)} != {g.nodes[n][CUSTOM_NODE]}")
        for k in loaded:
            for n in g:
                if not refs.close(C.norm(imp.graph.nodes[n].get(k)), C.norm(g.nodes[n].get(k))):
                    return ("loaded_feature", f"node {n}: {k} {imp.graph.nodes[n].get(k)} != {g.nodes[n].get(k)}")
        for (u, v) in w.edges():
            for k in ("iou", "ew"):
                a = g.edges[u, v].get(k)
                if a is not None and k in tr.features:
                    b = imp.graph.edges[u, v].get(k)
                    if not refs.close(a, b):
                        return ("edge_feature", f"edge ({u},{v}): {k} {b} != {a}")
        if seg_path is not None and not np.array_equal(np.asarray(imp.segmentation).astype(np.int64), tr.segmentation.astype(np.int64)):
            return ("segmentation", "segmentation differs after GEFF import")
        return None

    def _rt_internal(self, tmp, op):
        from funtracks.import_export import load_tracks, save_tracks

        tr = self.w.tracks
        target = tmp / "s"
        if op.get("home"):
            import tempfile
            from pathlib import Path

            if getattr(self, "_home", None) is None:
                _sweep_stale_homes()
                self._home = tempfile.TemporaryDirectory(prefix="verif-c14-home-")  # removed with the oracle
                self._home_saves = 0
            target = Path(self._home.name) / "project"
            self._home_saves += 1
            if self._home_saves > 1:
                self.col.event("internal:resave_same_directory")
        save_tracks(tr, target)
        with warnings.catch_warnings():
            warnings.simplefilter("ignore")
            imp = load_tracks(target, solution=True)
        d = C.canon_diff(C.canon(tr), C.canon(imp), float_keys=set())
        if d:
            return ("state", d)
        if C.norm(tr.scale) != C.norm(imp.scale):
            return ("scale", f"scale {imp.scale!r} != {tr.scale!r}")
        ra, rb = C.registry(tr), C.registry(imp)
        if ra != rb:
            k = next(k for k in ra if ra[k] != rb[k])
            return ("registry", f"registry {k}: {rb[k]!r} != {ra[k]!r}")
        if C.lookups(tr) != C.lookups(imp):
            return ("lookups", f"lookups {C.lookups(imp)} != {C.lookups(tr)}")
        return None
