"""Per-property oracles for the history machine (see machine.Oracle)."""

from __future__ import annotations

import warnings

import numpy as np

from . import canon as C
from . import refs
from .machine import Oracle
from .world import CUSTOM_NODE, named_nodes, structural_tags

EDIT_OPS = ("add_node", "delete_node", "add_edge", "delete_edge", "swap", "attrs", "paint")


def _pre_components(pre) -> dict:
    """node -> frozenset(component) in a canonical pre-state."""
    comp = {}
    for cls in refs.lineages(pre["nodes"].keys(), pre["edges"].keys()):
        for n in cls:
            comp[n] = cls
    return comp


def _named_with_track(world, op, pre, tkey) -> set:
    named = set(named_nodes_pre(op, pre))
    tid = None
    if op["op"] == "add_node":
        tid = op["attrs"].get(tkey)
    elif op["op"] == "paint":
        tid = op.get("track_id")
    if tid is not None:
        named |= {n for n, a in pre["nodes"].items() if a.get(tkey) == tid}
    return named


def named_nodes_pre(op, pre) -> list:
    kind = op["op"]
    if kind in ("add_node", "delete_node", "attrs"):
        return [op["node"]]
    if kind in ("add_edge", "delete_edge"):
        return list(op["edge"])
    if kind == "swap":
        return list(op["nodes"])
    if kind == "paint":
        seg = pre["seg"]
        sp = tuple(np.asarray(a, dtype=np.int64) for a in op["pixels"])
        vals = {int(v) for v in np.unique(seg[op["time"]][sp]).tolist()} - {0}
        if op["value"]:
            vals.add(int(op["value"]))
        return sorted(vals)
    return []


# ========================================================================================
# C04 / C05: id partitions
# ========================================================================================
class PartitionOracle(Oracle):
    which = "tracklet"  # or "lineage"

    def _key(self):
        return self.w.tkey if self.which == "tracklet" else self.w.lkey

    def _classes(self, nodes, edges):
        return refs.tracklets(nodes, edges) if self.which == "tracklet" else refs.lineages(nodes, edges)

    def _check_partition(self, state, where):
        key = self._key()
        label_of = {n: a.get(key) for n, a in state["nodes"].items()}
        mm = refs.partition_mismatch(label_of, self._classes(state["nodes"].keys(), state["edges"].keys()))
        if mm:
            self.rep(f"{self.which}_partition:{where}", f"after {where}: {mm}")
            return False
        return True

    def start(self):
        self.col.evaluation()
        st = C.canon(self.w.tracks)
        route = self.w.cfg["route"]
        self._check_partition(st, f"construction[{route}]")
        self.col.event(f"construct:{route}")
        if st["edges"]:
            outdeg = {}
            for u, _ in st["edges"]:
                outdeg[u] = outdeg.get(u, 0) + 1
            shape = tuple(sorted((self.w.time(u), self.w.time(v), outdeg[u]) for u, v in st["edges"]))
            self.col.nontrivial_case(("construct", self.which, route, shape))

    def after(self, op, out, pre, post):
        key = self._key()
        kind = op["op"]
        where = kind if out.ok else f"refused_{kind}"
        if not self._check_partition(post, where):
            return
        if kind in EDIT_OPS and out.ok:
            # frame clause: components that contain no named node / node of the named track
            named = _named_with_track(self.w, op, pre, self.w.tkey)
            comp = _pre_components(pre)
            for n, a in pre["nodes"].items():
                if n not in post["nodes"]:
                    continue
                if comp[n] & named:
                    continue
                if post["nodes"][n].get(key) != a.get(key):
                    self.rep(f"{self.which}_frame:{kind}",
                             f"{kind} {op_brief(op)} changed the {self.which} id of unrelated node {n}: "
                             f"{a.get(key)} -> {post['nodes'][n].get(key)}")
                    return
        changed = [n for n, a in pre["nodes"].items()
                   if n in post["nodes"] and post["nodes"][n].get(key) != a.get(key)]
        struct = set(pre["edges"]) != set(post["edges"]) or set(pre["nodes"]) != set(post["nodes"])
        if struct:
            self.col.event(f"op:{kind}:changed_structure")
        if changed or (struct and self.which == "lineage" and
                       len(refs.lineages(pre["nodes"], pre["edges"])) != len(refs.lineages(post["nodes"], post["edges"]))):
            self.col.event(f"{self.which}:relabel:{kind}")
            self.col.nontrivial_case((self.which, kind, self._tags(op), min(len(changed), 4),
                                      bool(op.get("force")), out.ok))

    def before(self, op, pre):
        self._t = structural_tags(self.w, op)

    def _tags(self, op):
        return self._t


class C04Oracle(PartitionOracle):
    which = "tracklet"


class C05Oracle(PartitionOracle):
    which = "lineage"


def op_brief(op) -> str:
    d = {k: v for k, v in op.items() if k not in ("pixels", "op")}
    if "pixels" in op and op["pixels"] is not None:
        d["npix"] = len(op["pixels"][0])
    return str(d)


# ========================================================================================
# C03: forward-in-time binary forest
# ========================================================================================
class C03Oracle(Oracle):
    def start(self):
        self._check_forest("construction")

    def _check_forest(self, where) -> bool:
        g = self.w.tracks.graph
        for n in g.nodes:
            if g.in_degree(n) > 1:
                self.rep(f"merge:{where}", f"after {where}: node {n} has parents {sorted(g.predecessors(n))}")
                return False
            if g.out_degree(n) > 2:
                self.rep(f"third_child:{where}", f"after {where}: node {n} has children {sorted(g.successors(n))}")
                return False
        for u, v in g.edges:
            if not self.w.time(u) < self.w.time(v):
                self.rep(f"non_forward_edge:{where}",
                         f"after {where}: edge ({u},{v}) goes from t={self.w.time(u)} to t={self.w.time(v)}")
                return False
        return True

    def before(self, op, pre):
        self._tags = structural_tags(self.w, op)
        self._conflict = None
        g = self.w.tracks.graph
        kind = op["op"]
        tkey = self.w.tkey
        if kind == "add_edge":
            u, v = op["edge"]
            if u in g and v in g:
                viol = []
                if g.in_degree(v) > 0:
                    viol.append("merge")
                rem_out = g.out_degree(u) - (1 if g.has_edge(u, v) else 0)
                if g.out_degree(u) >= 2 and not g.has_edge(u, v):
                    viol.append("third_child")
                if self.w.time(u) >= self.w.time(v):
                    viol.append("non_forward")
                self._conflict = {"viol": viol, "allowed": set(g.in_edges(v)), "must": (u, v)}
                del rem_out
        elif kind in ("add_node", "paint"):
            if kind == "add_node":
                node, tid, t = op["node"], op["attrs"].get(tkey), op["attrs"].get(self.w.time_key)
                creates = node not in g and tid is not None and t is not None
            else:
                node, tid, t = op["value"], op.get("track_id"), op["time"]
                creates = node != 0 and node not in g
            allowed = set()
            viol = []
            if creates:
                same = [(self.w.time(n), n) for n in g.nodes if g.nodes[n].get(tkey) == tid]
                if not any(tt == t for tt, _ in same):
                    before_ = [x for x in same if x[0] < t]
                    after_ = [x for x in same if x[0] > t]
                    pred = max(before_)[1] if before_ else None
                    succ = min(after_)[1] if after_ else None
                    if pred is not None:
                        allowed |= set(g.out_edges(pred))
                        if g.out_degree(pred) == 2:
                            viol.append("upstream_division")
                    if succ is not None:
                        allowed |= set(g.in_edges(succ))
                        ps = list(g.predecessors(succ))
                        if "upstream_division" not in viol and ps and g.out_degree(ps[0]) == 2:
                            viol.append("downstream_division")
            if kind == "paint":
                # nodes erased entirely lose their incident edges by definition of the edit
                seg = self.w.tracks.segmentation
                sp = tuple(np.asarray(a, dtype=np.int64) for a in op["pixels"])
                stroke = np.zeros(self.w.shape, dtype=bool)
                stroke[sp] = True
                erased = False
                for n in {int(x) for x in np.unique(seg[op["time"]][sp]).tolist()} - {0, int(op["value"])}:
                    if n in g and not ((seg[op["time"]] == n) & ~stroke).any():
                        allowed |= set(g.in_edges(n)) | set(g.out_edges(n))
                        erased = True
                if erased:
                    # The erased nodes are deleted (and their track neighbours reconnected)
                    # *before* the new node is placed, so the conflicts of the placement are
                    # those of an intermediate state: only the invariants are checked here.
                    viol = []
                    allowed = None
            self._conflict = {"viol": viol, "allowed": allowed, "must": None, "creates": creates}

    def after(self, op, out, pre, post):
        kind = op["op"]
        where = kind if out.ok else f"refused_{kind}"
        if not self._check_forest(where):
            return
        c = self._conflict
        if c is None or out.info.get("noop"):
            return
        force = bool(op.get("force"))
        if c["viol"]:
            self.col.event(f"offer:{kind}:{'+'.join(c['viol'])}:{'force' if force else 'noforce'}")
            self.col.nontrivial_case((kind, tuple(c["viol"]), force, out.ok, out.exc_name, self._tags))
        if c["viol"] and not force:
            if out.ok:
                self.rep(f"not_refused:{kind}:{'+'.join(c['viol'])}",
                         f"{kind} {op_brief(op)} would create {c['viol']} but was accepted without force")
            elif out.exc_name != "InvalidActionError":
                self.rep(f"wrong_exception:{kind}:{'+'.join(c['viol'])}",
                         f"{kind} {op_brief(op)} ({c['viol']}) raised {out.exc!r} instead of InvalidActionError")
            return
        if kind == "add_edge" and "non_forward" in c["viol"]:
            if out.ok:
                self.rep("not_refused:add_edge:non_forward",
                         f"non-forward edge {op['edge']} accepted (force={force})")
            elif out.exc_name != "InvalidActionError":
                self.rep("wrong_exception:add_edge:non_forward",
                         f"non-forward edge {op['edge']} raised {out.exc!r}")
            return
        if out.ok:
            removed = set(pre["edges"]) - set(post["edges"])
            extra = set() if c["allowed"] is None else removed - {(int(u), int(v)) for u, v in c["allowed"]}
            if extra:
                self.rep(f"removed_nonconflicting:{kind}",
                         f"{kind} {op_brief(op)} removed edges {sorted(extra)} that do not conflict with it "
                         f"(conflicting: {sorted(c['allowed'])})")
            if c["must"] is not None and tuple(c["must"]) not in post["edges"]:
                self.rep(f"requested_edge_missing:{kind}", f"{kind} {op_brief(op)} accepted but edge absent")
            if kind != "add_edge" and c.get("creates") and int(op["node"] if kind == "add_node" else op["value"]) not in post["nodes"]:
                self.rep(f"requested_node_missing:{kind}", f"{kind} {op_brief(op)} accepted but node absent")
        elif c["viol"] and out.exc_name != "InvalidActionError" and kind == "add_edge":
            self.rep(f"wrong_exception:{kind}:{'+'.join(c['viol'])}",
                     f"forced {kind} {op_brief(op)} raised {out.exc!r} instead of InvalidActionError")


# ========================================================================================
# C06: lookups, queries, fresh ids
# ========================================================================================
class C06Oracle(Oracle):
    def start(self):
        self._recent = []
        self._check("construction")

    def before(self, op, pre):
        self._tags = structural_tags(self.w, op)

    def after(self, op, out, pre, post):
        kind = op["op"]
        self._recent = (self._recent + [kind if out.ok else f"refused_{kind}"])[-3:]
        self._check(kind, pre, post)

    def _check(self, where, pre=None, post=None):
        w = self.w
        tr = w.tracks
        g = tr.graph
        tkey, lkey = w.tkey, w.lkey
        scan_t: dict = {}
        scan_l: dict = {}
        for n, d in g.nodes(data=True):
            if d.get(tkey) is not None:
                scan_t.setdefault(int(d[tkey]), []).append(int(n))
            if lkey is not None and d.get(lkey) is not None:
                scan_l.setdefault(int(d[lkey]), []).append(int(n))
        scan_t = {k: sorted(v) for k, v in scan_t.items()}
        scan_l = {k: sorted(v) for k, v in scan_l.items()}
        lk = C.lookups(tr)
        if lk["tracklets"] != scan_t:
            self.rep(f"track_lookup:{where}", f"after {where}: track lookup {lk['tracklets']} != scan {scan_t}")
            return
        if lk["lineages"] != scan_l:
            self.rep(f"lineage_lookup:{where}", f"after {where}: lineage lookup {lk['lineages']} != scan {scan_l}")
            return
        with warnings.catch_warnings():
            warnings.simplefilter("ignore")
            nt = tr.get_next_track_id()
            nl = tr.get_next_lineage_id()
            if nt in scan_t:
                self.rep(f"next_track_id_in_use:{where}", f"after {where}: get_next_track_id()={nt} is in use")
                return
            if nl in scan_l:
                self.rep(f"next_lineage_id_in_use:{where}", f"after {where}: get_next_lineage_id()={nl} is in use")
                return
            k = 1 + (len(self.w.trace) % 4)
            ids = [int(i) for i in tr._get_new_node_ids(k)]
            if len(set(ids)) != k or any(i in g for i in ids):
                self.rep(f"new_node_ids:{where}", f"after {where}: _get_new_node_ids({k})={ids} not fresh/distinct")
                return
            # queries over all ids x all times
            changed_tracks = set()
            if pre is not None:
                for n in set(pre["nodes"]) | set(post["nodes"]):
                    a = pre["nodes"].get(n, {}).get(tkey)
                    b = post["nodes"].get(n, {}).get(tkey)
                    if a != b:
                        changed_tracks |= {a, b}
                changed_tracks.discard(None)
            unused = max(list(scan_t) + [0]) + 3
            for tid in sorted(set(scan_t) | {nt, 0, unused}):
                members = [(w.time(n), n) for n in scan_t.get(tid, [])]
                times = [t for t, _ in members]
                unique = len(set(times)) == len(times)
                for t in range(-1, w.frames + 1):
                    has = tr.has_track_id_at_time(tid, t)
                    if bool(has) != (t in times):
                        self.rep(f"has_track_id_at_time:{where}",
                                 f"after {where}: has_track_id_at_time({tid},{t})={has}, scan says {t in times}")
                        return
                    if not unique:
                        continue
                    bef = [x for x in members if x[0] < t]
                    aft = [x for x in members if x[0] > t]
                    exp = (max(bef)[1] if bef else None, min(aft)[1] if aft else None)
                    got = tr.get_track_neighbors(tid, t)
                    got = tuple(None if x is None else int(x) for x in got)
                    if got != exp:
                        self.rep(f"get_track_neighbors:{where}",
                                 f"after {where}: get_track_neighbors({tid},{t})={got}, scan says {exp}")
                        return
                    self.col.evaluation()
                    if tid in changed_tracks:
                        self.col.nontrivial_case(("query", tuple(self._recent), len(members), t - min(times + [t]),
                                                  bool(bef), bool(aft)))
                        self.col.event("query_on_changed_track")


# ========================================================================================
# C20: refresh notifications
# ========================================================================================
class C20Oracle(Oracle):
    def before(self, op, pre):
        self._tags = structural_tags(self.w, op)
        self._exists = op.get("value") in self.w.tracks.graph if op["op"] == "paint" else None

    def after(self, op, out, pre, post):
        kind = op["op"]
        if out.info.get("noop"):
            return
        n = len(out.emitted)
        if kind in ("undo", "redo"):
            if not out.ok:
                return
            exp = 1 if out.result else 0
            if n != exp:
                self.rep(f"emissions:{kind}:{'done' if out.result else 'nothing_to_do'}",
                         f"{kind}() returned {out.result} and emitted {n} refresh signals (expected {exp})")
            if not out.result:
                self.col.event(f"exhausted_{kind}")
                self.col.nontrivial_case((kind, "exhausted", len(self.w.tracks.action_history.undo_stack) > 0))
            return
        if kind not in EDIT_OPS:
            return
        if not out.ok:
            self.col.event(f"refused:{kind}")
            self.col.nontrivial_case((kind, "refused", out.exc_name, self._tags))
            if n != 0:
                self.rep(f"emissions:refused_{kind}", f"refused {kind} {op_brief(op)} emitted {n} refresh signals")
            return
        nested = self._nested(out.action)
        if nested:
            self.col.event(f"nested:{kind}")
            self.col.nontrivial_case((kind, "nested", nested, bool(op.get("force")), self._tags))
        if n != 1:
            self.rep(f"emissions:{kind}" + (":nested" if nested else ""),
                     f"successful {kind} {op_brief(op)} emitted {n} refresh signals (expected 1)")
            return
        payload = out.emitted[0]
        new_node = None
        if kind == "add_node":
            new_node = op["node"]
        elif kind == "paint" and op["value"] != 0 and self._exists is False:
            new_node = op["value"]
        if new_node is not None:
            if len(payload) != 1 or payload[0] is None or int(payload[0]) != int(new_node):
                self.rep(f"payload:{kind}", f"{kind} created node {new_node} but refresh carried {payload!r}")

    @staticmethod
    def _nested(action) -> int:
        from funtracks.actions._base import ActionGroup

        def count(a):
            c = 0
            for s in getattr(a, "actions", []):
                if isinstance(s, ActionGroup):
                    c += 1 + count(s)
            return c

        return count(action) if action is not None else 0


# ========================================================================================
# C11: a refused edit changes nothing
# ========================================================================================
class C11Oracle(Oracle):
    owns_atomicity = True

    def before(self, op, pre):
        self._tags = structural_tags(self.w, op)
        self._full = C.full_snapshot(self.w.tracks)

    def after(self, op, out, pre, post):
        kind = op["op"]
        if out.ok or kind in ("undo", "redo"):
            return
        cls = refusal_class(self.w, op, out)
        self.col.event(f"refusal:{cls}")
        self.col.nontrivial_case((kind, out.exc_name, cls, self._tags, bool(op.get("force"))))
        if kind in ("enable", "disable"):
            return
        d = C.full_diff(self._full, C.full_snapshot(self.w.tracks))
        if d is not None:
            self.rep(f"refused_{kind}_changed_state:{cls}",
                     f"{kind} {op_brief(op)} raised {out.exc!r} but changed the tracks: {d}")
            return
        if out.emitted:
            self.rep(f"refused_{kind}_emitted", f"{kind} {op_brief(op)} raised {out.exc!r} but emitted refresh")


def refusal_class(world, op, out) -> str:
    kind = op["op"]
    msg = str(out.exc)
    g = world.tracks.graph
    if kind == "add_node":
        if world.time_key not in op["attrs"] or world.tkey not in op["attrs"]:
            return "missing_argument"
        if "already exists" in msg:
            return "existing_node"
        if "position or segmentation" in msg or "position" in msg.lower() and "must provide" in msg.lower():
            return "missing_position"
        if "division" in msg:
            return "conflict_without_force"
        return f"other:{out.exc_name}"
    if kind == "add_edge":
        if any(n not in g for n in op["edge"]):
            return "unknown_node"
        if "merge" in msg:
            return "conflict_without_force"
        if "Expected degree" in msg:
            return "forced_but_failing" if op.get("force") else "third_child"
        if "time" in msg:
            return "non_forward"
        return f"other:{out.exc_name}"
    if kind == "delete_edge":
        return "unknown_edge"
    if kind == "delete_node":
        return "unknown_node"
    if kind == "swap":
        return "invalid_swap"
    if kind == "attrs":
        if op["node"] not in g:
            return "unknown_node"
        return "protected_attribute"
    if kind == "paint":
        return "paint_subedit_refused:" + ("conflict_without_force" if "division" in msg else out.exc_name or "")
    return f"other:{out.exc_name}"
