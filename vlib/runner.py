"""Runner shared by all checks.

    python -m vlib.runner <ID> [--tier quick|thorough] [--replay FILE] [--shards N]

Responsibilities: import funtracks from the tree under test ($VERIF_REPO, default /repo),
derive per-shard seeds from VERIF_SEED, run the property module's shards on all cores,
merge their collectors, minimise one failing case per failure bucket, write replay files,
print VIOLATION / KNOWN-FINDING lines, write evidence/<ID>.json, choose the exit code.
"""

from __future__ import annotations

import argparse
import hashlib
import importlib
import json
import multiprocessing as mp
import os
import sys
import time
import traceback
from pathlib import Path

ROOT = Path(__file__).resolve().parent.parent
REPO = Path(os.environ.get("VERIF_REPO", "/repo")).resolve()
sys.path.insert(0, str(REPO / "src"))

SAMPLES_KEPT = 6


# --------------------------------------------------------------------------------------
# Collector: what one shard (and, merged, one run) observed
# --------------------------------------------------------------------------------------
class Collector:
    def __init__(self) -> None:
        self.evaluations = 0  # oracle evaluations (cases / steps)
        self.cases = 0  # generated top-level cases (sequences, inputs)
        self.nontrivial: set[int] = set()  # hashes of non-trivial case descriptors
        self.classes: dict[str, int] = {}
        self.samples: list = []
        self.failures: dict[str, dict] = {}  # bucket -> {message, replay, size}
        self.failure_counts: dict[str, int] = {}
        self.excluded: dict[str, int] = {}
        self.extra: dict = {}

    # -- recording -------------------------------------------------------------------
    def evaluation(self, n: int = 1) -> None:
        self.evaluations += n

    def case(self, n: int = 1) -> None:
        self.cases += n

    def event(self, tag: str, n: int = 1) -> None:
        self.classes[tag] = self.classes.get(tag, 0) + n

    def nontrivial_case(self, descriptor) -> None:
        h = hashlib.blake2b(repr(descriptor).encode(), digest_size=8).digest()
        self.nontrivial.add(int.from_bytes(h, "big"))

    def sample(self, obj) -> None:
        if len(self.samples) < SAMPLES_KEPT:
            self.samples.append(obj)

    def exclude(self, tag: str, n: int = 1) -> None:
        self.excluded[tag] = self.excluded.get(tag, 0) + n

    def fail(self, bucket: str, message: str, replay, size: int | None = None) -> None:
        """Record a property violation. One (smallest) replay is kept per bucket."""
        self.failure_counts[bucket] = self.failure_counts.get(bucket, 0) + 1
        if size is None:
            size = len(json.dumps(replay, default=str))
        cur = self.failures.get(bucket)
        if cur is None or size < cur["size"]:
            self.failures[bucket] = {"message": message, "replay": replay, "size": size}

    # -- merging ---------------------------------------------------------------------
    def merge(self, other: "Collector") -> None:
        self.evaluations += other.evaluations
        self.cases += other.cases
        self.nontrivial |= other.nontrivial
        for k, v in other.classes.items():
            self.classes[k] = self.classes.get(k, 0) + v
        for k, v in other.excluded.items():
            self.excluded[k] = self.excluded.get(k, 0) + v
        for s in other.samples:
            self.sample(s)
        for b, f in other.failures.items():
            cur = self.failures.get(b)
            if cur is None or f["size"] < cur["size"]:
                self.failures[b] = f
        for b, n in other.failure_counts.items():
            self.failure_counts[b] = self.failure_counts.get(b, 0) + n
        for k, v in other.extra.items():
            if isinstance(v, bool):
                self.extra[k] = bool(self.extra.get(k, True)) and v
            elif isinstance(v, (int, float)) and isinstance(self.extra.get(k), (int, float)):
                self.extra[k] += v
            elif isinstance(v, dict) and isinstance(self.extra.get(k), dict):
                self.extra[k].update(v)
            elif isinstance(v, list) and isinstance(self.extra.get(k), list):
                self.extra[k] = (self.extra[k] + v)[:4]
            else:
                self.extra.setdefault(k, v)


class ShardCtx:
    """Handed to a property module's ``run_shard``."""

    def __init__(self, prop: str, tier: str, seed: int, shard: int, nshards: int):
        self.prop = prop
        self.tier = tier
        self.seed = seed  # already derived per shard
        self.shard = shard
        self.nshards = nshards
        self.col = Collector()
        self.known = load_known(prop)

    def share(self, total: int) -> int:
        """This shard's share of ``total`` cases."""
        base, rem = divmod(total, self.nshards)
        return base + (1 if self.shard < rem else 0)


def derive_seed(base: int, prop: str, shard: int) -> int:
    h = hashlib.blake2b(f"{base}:{prop}:{shard}".encode(), digest_size=4).digest()
    return int.from_bytes(h, "big")


# --------------------------------------------------------------------------------------
# known findings
# --------------------------------------------------------------------------------------
def load_known(prop: str) -> list[dict]:
    path = ROOT / "known_findings.json"
    if not path.exists():
        return []
    data = json.loads(path.read_text())
    return [f for f in data.get("findings", []) if f.get("property") == prop]


def match_known(known: list[dict], bucket: str) -> dict | None:
    for f in known:
        if bucket in f.get("buckets", []):
            return f
    return None


# --------------------------------------------------------------------------------------
def _no_threads():
    # dask's default threaded scheduler starts a thread pool; threads + fork deadlock
    try:
        import dask

        dask.config.set(scheduler="synchronous")
    except Exception:  # noqa: BLE001
        pass


def _run_regression(args):
    prop, files, known = args
    _no_threads()
    try:
        mod = importlib.import_module(f"vlib.props.{prop.lower()}")
        out = []
        for rf in files:
            payload = json.loads(Path(rf).read_text())
            col = Collector()
            mod.replay(payload["replay"], col)
            out.append((rf, col))
        return ("ok", out)
    except BaseException:  # noqa: BLE001
        return ("error", traceback.format_exc())


def _run_one_shard(args):
    prop, tier, seed, shard, nshards = args
    _no_threads()
    try:
        mod = importlib.import_module(f"vlib.props.{prop.lower()}")
        ctx = ShardCtx(prop, tier, seed, shard, nshards)
        mod.run_shard(ctx)
        return ("ok", ctx.col)
    except BaseException:  # noqa: BLE001 - reported as harness error
        return ("error", traceback.format_exc())


def write_replay(prop: str, bucket: str, failure: dict) -> Path:
    rdir = ROOT / "replays"
    rdir.mkdir(exist_ok=True)
    payload = {
        "property": prop,
        "bucket": bucket,
        "message": failure["message"],
        "replay": failure["replay"],
    }
    text = json.dumps(payload, indent=1, default=_json_default)
    h = hashlib.blake2b(text.encode(), digest_size=4).hexdigest()
    safe = "".join(c if c.isalnum() or c in "-_." else "_" for c in bucket)[:60]
    path = rdir / f"{prop}-{safe}-{h}.json"
    path.write_text(text)
    return path


def _json_default(o):
    import numpy as np

    if isinstance(o, np.integer):
        return int(o)
    if isinstance(o, np.floating):
        return float(o)
    if isinstance(o, np.ndarray):
        return o.tolist()
    if isinstance(o, (set, frozenset)):
        return sorted(o, key=repr)
    if isinstance(o, tuple):
        return list(o)
    return repr(o)


def write_evidence(prop, tier, seed, mod, col: Collector, wall, violations, known_lines, mode):
    cov = {
        "evaluations": int(col.evaluations),
        "distinct_nontrivial": len(col.nontrivial),
        "rule": getattr(mod, "RULE", ""),
        "samples": col.samples[:SAMPLES_KEPT],
        "cases": int(col.cases),
        "classes": dict(sorted(col.classes.items())),
        "excluded": col.excluded,
        "failure_buckets": col.failure_counts,
        "known_findings_reported": known_lines,
        "mode": mode,
        "repo": str(REPO),
    }
    cov.update(col.extra)
    ev = {
        "property_id": prop,
        "tier": tier,
        "seed": int(seed),
        "level": "exploration",
        "coverage": cov,
        "assumptions": list(getattr(mod, "ASSUMPTIONS", [])),
        "wall_s": round(wall, 3),
        "violations": int(violations),
    }
    edir = ROOT / "evidence"
    edir.mkdir(exist_ok=True)
    (edir / f"{prop}.json").write_text(json.dumps(ev, indent=1, default=_json_default))


def main(argv=None) -> int:
    ap = argparse.ArgumentParser()
    ap.add_argument("prop")
    ap.add_argument("--tier", default=os.environ.get("VERIF_TIER", "quick"),
                    choices=["quick", "thorough"])
    ap.add_argument("--replay", default=None)
    ap.add_argument("--shards", type=int, default=int(os.environ.get("VERIF_SHARDS", "16")))
    ap.add_argument("--no-evidence", action="store_true")
    args = ap.parse_args(argv)
    prop = args.prop.upper()
    seed = int(os.environ.get("VERIF_SEED", "1") or "1")
    t0 = time.time()

    _no_threads()
    try:
        import funtracks

        if not str(Path(funtracks.__file__).resolve()).startswith(str(REPO / "src")):
            print(f"HARNESS-ERROR: funtracks imported from {funtracks.__file__}, "
                  f"expected under {REPO / 'src'}")
            return 2
        mod = importlib.import_module(f"vlib.props.{prop.lower()}")
    except Exception:  # noqa: BLE001
        print("HARNESS-ERROR: import failed\n" + traceback.format_exc())
        return 2

    known = load_known(prop)

    # ---------------------------------------------------------------- replay mode ----
    if args.replay:
        try:
            payload = json.loads(Path(args.replay).read_text())
            col = Collector()
            mod.replay(payload["replay"], col)
        except Exception:  # noqa: BLE001
            print("HARNESS-ERROR: replay failed\n" + traceback.format_exc())
            return 2
        rc = 0
        for bucket, f in col.failures.items():
            kf = match_known(known, bucket)
            if kf is not None:
                print(f"KNOWN-FINDING: property={prop} {kf['what']}")
            else:
                print(f"VIOLATION property={prop} replay={args.replay}")
                print(f"  bucket={bucket}: {f['message']}")
                rc = 1
        if not col.failures:
            print(f"replay {args.replay}: no violation")
        return rc

    # ------------------------------------------------------------- regression tier ----
    total = Collector()
    violations: list[tuple[str, str, str]] = []  # (bucket, message, path)
    reg_dir = ROOT / "replays" / "regression"
    reg_files = sorted(reg_dir.glob(f"{prop}-*.json")) if reg_dir.exists() else []
    try:
        ctxm = mp.get_context("fork")
        with ctxm.Pool(1) as pool:
            status, reg_out = pool.apply(_run_regression, ((prop, [str(f) for f in reg_files], known),))
        if status != "ok":
            print("HARNESS-ERROR: regression replay failed\n" + reg_out)
            return 2
        for rf_s, col in reg_out:
            rf = Path(rf_s)
            total.event("regression_replays")
            total.evaluations += max(col.evaluations, 1)
            for bucket, f in col.failures.items():
                total.failure_counts[bucket] = total.failure_counts.get(bucket, 0) + 1
                if match_known(known, bucket) is None:
                    violations.append((bucket, f["message"], str(rf.relative_to(ROOT))))
                else:
                    total.failures.setdefault(bucket, f)
    except Exception:  # noqa: BLE001
        print("HARNESS-ERROR: regression replay failed\n" + traceback.format_exc())
        return 2

    # ----------------------------------------------------------------- generation ----
    nshards = max(1, args.shards)
    jobs = [(prop, args.tier, derive_seed(seed, prop, s), s, nshards) for s in range(nshards)]
    if nshards == 1:
        results = [_run_one_shard(jobs[0])]
    else:
        ctxm = mp.get_context("fork")
        with ctxm.Pool(min(nshards, os.cpu_count() or 1)) as pool:
            results = pool.map(_run_one_shard, jobs, chunksize=1)
    errors = [r[1] for r in results if r[0] == "error"]
    if errors:
        print("HARNESS-ERROR: a shard failed\n" + errors[0])
        return 2
    for _, col in results:
        total.merge(col)

    # -------------------------------------------------- minimise, classify, report ----
    known_lines: list[str] = []
    seen_known: set[str] = set()
    minimised = 0
    MAX_MINIMISED = 4  # further buckets are reported with their smallest recorded case
    for bucket in sorted(total.failures):
        f = total.failures[bucket]
        kf = match_known(known, bucket)
        if kf is not None:
            if kf["id"] not in seen_known:
                seen_known.add(kf["id"])
                known_lines.append(f"KNOWN-FINDING: property={prop} {kf['what']}")
            continue
        if any(v[0] == bucket for v in violations):
            continue
        try:
            if hasattr(mod, "minimise") and minimised < MAX_MINIMISED:
                minimised += 1
                f = mod.minimise(bucket, f)
        except Exception:  # noqa: BLE001 - keep the unminimised replay
            traceback.print_exc()
        path = write_replay(prop, bucket, f)
        violations.append((bucket, f["message"], str(path.relative_to(ROOT))))

    # a listed known finding is also re-established by its own deterministic repro
    for kf in known:
        if kf["id"] in seen_known or "repro" not in kf:
            continue
        try:
            col = Collector()
            mod.replay(kf["repro"], col)
            if any(match_known([kf], b) for b in col.failures):
                seen_known.add(kf["id"])
                known_lines.append(f"KNOWN-FINDING: property={prop} {kf['what']}")
            for b, f in col.failures.items():
                if match_known(known, b) is None and not any(v[0] == b for v in violations):
                    path = write_replay(prop, b, f)
                    violations.append((b, f["message"], str(path.relative_to(ROOT))))
        except Exception:  # noqa: BLE001
            print("HARNESS-ERROR: known-finding repro failed\n" + traceback.format_exc())
            return 2

    wall = time.time() - t0
    # vacuity guards declared by the module: classes that must have been reached
    missing = [c for c in getattr(mod, "REQUIRED_CLASSES", {}).get(args.tier, [])
               if total.classes.get(c, 0) == 0]
    if not args.no_evidence:
        write_evidence(prop, args.tier, seed, mod, total, wall, len(violations), known_lines,
                       getattr(mod, "MODE", "hypothesis"))
    aborted = {k: v for k, v in total.classes.items() if k.startswith("aborted:")}
    if aborted:
        print(f"note: walks abandoned by a hand-over rule / time limit (counted, not a verdict): {aborted}")
        for smp in total.extra.get("aborted_samples", [])[:2]:
            print(f"  e.g. {smp}")
    for line in known_lines:
        print(line)
    for bucket, message, path in violations:
        print(f"VIOLATION property={prop} replay={path}")
        print(f"  bucket={bucket}: {message}")
    print(f"{prop} tier={args.tier} seed={seed} cases={total.cases} evaluations={total.evaluations} "
          f"distinct_nontrivial={len(total.nontrivial)} violations={len(violations)} "
          f"wall={wall:.1f}s")
    if violations:
        return 1
    if missing:
        print(f"HARNESS-ERROR: generator never reached required classes {missing}")
        return 2
    if total.evaluations == 0 or len(total.nontrivial) < 2:
        print("HARNESS-ERROR: vacuous run (no evaluations or <2 distinct non-trivial cases)")
        return 2
    return 0


if __name__ == "__main__":
    sys.exit(main())
