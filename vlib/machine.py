"""Model-based history driver shared by C01-C11, C14, C16, C20.

A *walk* is: generated initial state -> World -> a sequence of ops drawn from the current
state, each bracketed by the property's oracle. All randomness comes from a
Hypothesis-managed ``random.Random`` (``st.randoms(use_true_random=False)``), so a walk
is a Hypothesis example; the executed concrete ops are recorded and are the replay.

Oracles never raise into Hypothesis: failures go to the collector by bucket and the
walk stops (its state is no longer trusted). Afterwards one trace per bucket is
minimised by delta debugging over the concrete ops and over the initial nodes.
"""

from __future__ import annotations

import copy
import traceback

from . import canon as C
from . import hyp
from .ddmin import ddmin
from .world import OpTimeout, World, gen_config, gen_init, gen_op, structural_tags, swarm


class Oracle:
    """Base class: one instance per walk."""

    #: name -> weight of additional op kinds this oracle adds to the profile
    extra_ops: dict = {}

    def __init__(self, world: World, col, rep):
        self.w = world
        self.col = col
        self.rep = rep  # rep(bucket, message)

    def start(self):  # after construction
        pass

    def gen_extra(self, kind, rnd):  # -> op for an extra kind
        raise NotImplementedError

    def apply_extra(self, op, out):  # execute an extra op kind
        raise NotImplementedError

    def before(self, op, pre):
        pass

    def after(self, op, out, pre, post):
        pass

    def finish(self):
        pass


class Walk:
    def __init__(self, init, oracle_cls, col, oracle_kwargs=None):
        self.col = col
        self.failures: list[tuple[str, str]] = []
        self.init = init
        self.aborted: str | None = None
        self.world = World(copy.deepcopy(init))
        self.oracle = oracle_cls(self.world, col, self._rep, **(oracle_kwargs or {}))
        self.oracle.start()

    def _rep(self, bucket, message):
        self.failures.append((bucket, message))

    def step(self, op) -> bool:
        """Execute one op under the oracle; False when the walk must stop."""
        w = self.world
        tr = w.tracks
        pre = C.canon(tr)
        self.oracle.before(op, pre)
        if op["op"] in self.oracle.extra_ops:
            from .world import Outcome

            w.trace.append(op)
            w.emissions = []
            out = Outcome(ok=True)
            try:
                self.oracle.apply_extra(op, out)
            except Exception as e:  # noqa: BLE001
                # only for the kinds whose failure the oracle judges itself; anything else is a
                # harness error and propagates
                if op["op"] not in getattr(self.oracle, "extra_may_raise", ()):
                    raise
                out.ok = False
                out.exc = e
            out.emitted = list(w.emissions)
        else:
            try:
                out = w.apply(op)
            except OpTimeout:
                self.aborted = f"op_timeout:{op['op']}"
                return False
        post = C.canon(tr)
        self.col.evaluation()
        # Hand-over rules between properties (root-cause attribution): a walk whose state is
        # no longer a consistent solution for a reason another property owns is stopped
        # before this property's oracle looks at it.
        user_action = op["op"] in ("add_node", "delete_node", "add_edge", "delete_edge", "swap", "attrs", "paint")
        if user_action and not getattr(self.oracle, "owns_atomicity", False) and not out.ok:
            d = C.canon_diff(pre, post)
            if d is not None:
                self.aborted = "nonatomic_refusal(C11)"
                self.aborted_detail = {"op": {k: v for k, v in op.items() if k != "pixels"}, "exc": repr(out.exc), "diff": d}
                return False
        if not getattr(self.oracle, "owns_history", False) and op["op"] in ("undo", "redo") and not out.ok:
            self.aborted = "undo_redo_raised(C01/C02)"
            return False
        self.oracle.after(op, out, pre, post)
        if self.failures:
            return False
        return True


def run_walks(ctx, oracle_cls, *, n_walks: int, steps: int, profile: str, cfg_kwargs=None,
              init_kwargs=None, oracle_kwargs=None, refusal_bias: float = 0.08, name="walk"):
    """Generate ``n_walks`` walks of up to ``steps`` ops in this shard."""
    col = ctx.col
    col.extra["requested_cases"] = col.extra.get("requested_cases", 0) + n_walks

    def one(rnd):
        col.case()
        cfg = gen_config(rnd, **(cfg_kwargs or {}))
        init = gen_init(rnd, cfg, **(init_kwargs or {}))
        try:
            walk = Walk(init, oracle_cls, col, oracle_kwargs)
        except Exception as e:  # noqa: BLE001 - constructing a valid solution must not raise
            col.fail(f"construct:{type(e).__name__}",
                     f"constructing the tracks raised {e!r}\n{traceback.format_exc(limit=4)}",
                     {"init": init, "ops": []})
            return
        weights = swarm(rnd, profile)
        weights.update(walk.oracle.extra_ops)
        _config_tags(col, cfg)
        k = 0
        if not walk.failures:
            for k in range(steps):
                static = bool(walk.world.cfg.get("static")) and bool(walk.oracle.extra_ops)
                if walk.oracle.extra_ops and (static or _is_extra(rnd, weights, walk.oracle.extra_ops)):
                    kinds = sorted(walk.oracle.extra_ops)
                    op = walk.oracle.gen_extra(kinds[rnd.randint(0, len(kinds) - 1)], rnd)
                    if op is None and static:
                        continue
                    if op is None:
                        op = gen_op(walk.world, rnd, {k2: v for k2, v in weights.items() if k2 not in walk.oracle.extra_ops}, refusal_bias)
                else:
                    op = gen_op(walk.world, rnd, {k2: v for k2, v in weights.items() if k2 not in walk.oracle.extra_ops}, refusal_bias)
                if not walk.step(op):
                    break
        if not walk.failures and walk.aborted is None:
            walk.oracle.finish()
        getattr(walk.oracle, "close", lambda: None)()  # scratch directories of failed / aborted walks
        if walk.aborted:
            col.event(f"aborted:{walk.aborted}")
            det = getattr(walk, "aborted_detail", None)
            if det is not None and len(col.extra.setdefault("aborted_samples", [])) < 2:
                col.extra["aborted_samples"].append(det)
        for tag, cnt in walk.world.excluded.items():
            col.exclude(tag, cnt)
        for bucket, msg in walk.failures:
            col.fail(bucket, msg, {"init": init, "ops": list(walk.world.trace)},
                     size=len(walk.world.trace) * 1000 + len(init["nodes"]))
        if len(col.samples) < 3 and walk.world.trace:
            col.sample({"init_cfg": cfg, "n_nodes": len(init["nodes"]), "ops": walk.world.trace[:12]})

    hyp.run_given(ctx.seed, n_walks, hyp.st.randoms(use_true_random=False), one)


def _is_extra(rnd, weights, extra) -> bool:
    tot = sum(weights.values())
    ext = sum(extra.values())
    return rnd.random() * tot < ext


def _config_tags(col, cfg):
    col.event("cfg:3D" if cfg["ndim"] == 4 else "cfg:2D")
    col.event("cfg:seg" if cfg["seg"] else "cfg:noseg")
    col.event(f"cfg:route={cfg['route']}")
    if cfg["scale"] is None:
        col.event("cfg:scale=None")
    elif len(set(cfg["scale"][1:])) > 1:
        col.event("cfg:scale=anisotropic")
    else:
        col.event("cfg:scale=isotropic")
    if cfg.get("pos_mode") == "axes":
        col.event("cfg:per_axis_pos")
    if cfg.get("seg_axes"):
        col.event("cfg:seg_with_per_axis_pos")
    for k in cfg.get("optional", []):
        col.event(f"cfg:opt={k}")


# ----------------------------------------------------------------------------------------
def replay_trace(obj: dict, oracle_cls, col, oracle_kwargs=None) -> list[tuple[str, str]]:
    """Re-execute a recorded walk (no Hypothesis). Returns the failures."""
    try:
        walk = Walk(obj["init"], oracle_cls, col, oracle_kwargs)
    except Exception as e:  # noqa: BLE001
        f = [(f"construct:{type(e).__name__}", f"constructing the tracks raised {e!r}")]
        for b, m in f:
            col.fail(b, m, obj)
        return f
    for op in obj["ops"]:
        if walk.failures:
            break
        if not walk.step(copy.deepcopy(op)):
            break
    if not walk.failures and walk.aborted is None:
        walk.oracle.finish()
    getattr(walk.oracle, "close", lambda: None)()
    for b, m in walk.failures:
        col.fail(b, m, {"init": obj["init"], "ops": obj["ops"][: len(walk.world.trace)]})
    return walk.failures


def minimise_trace(bucket: str, failure: dict, oracle_cls, oracle_kwargs=None) -> dict:
    from .runner import Collector

    obj = failure["replay"]
    msg = {"m": failure["message"]}

    def fails(init, ops):
        try:
            fs = replay_trace({"init": init, "ops": ops}, oracle_cls, Collector(), oracle_kwargs)
        except Exception:  # noqa: BLE001 - a candidate that breaks the harness is not smaller
            return False
        for b, m in fs:
            if b == bucket:
                msg["m"] = m
                return True
        return False

    init, ops = obj["init"], obj["ops"]
    if not fails(init, ops):
        return failure  # not reproducible from the concrete trace: keep as is
    ops = ddmin(ops, lambda sub: fails(init, sub), budget=300)

    def drop_nodes(keep):
        ids = {n["id"] for n in keep}
        new = copy.deepcopy(init)
        new["nodes"] = [dict(n, parent=n["parent"] if n["parent"] in ids else None) for n in keep]
        return new

    nodes = ddmin(init["nodes"], lambda sub: fails(drop_nodes(sub), ops), budget=150) if len(init["nodes"]) > 1 else init["nodes"]
    if fails(drop_nodes(nodes), ops):
        init = drop_nodes(nodes)
    fails(init, ops)
    return {"message": msg["m"], "replay": {"init": init, "ops": ops}, "size": len(ops)}


def describe(world: World, op: dict) -> tuple:
    return (op["op"], structural_tags(world, op))
