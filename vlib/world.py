"""The system under test wrapped for history-based properties.

* ``gen_init(rnd, ...)``  - constructs (never filters) a JSON-able initial state: a
  configuration plus a random forest with positions or box-union masks.
* ``World(init)``         - builds the SolutionTracks from it, plays the GUI for paints,
  executes concrete JSON ops and records what happened.
* ``gen_op(world, rnd, profile)`` - draws the next concrete op from the *current* state
  (indices into sorted views are resolved to concrete values before execution, so a
  recorded trace can be re-executed without Hypothesis).
"""

from __future__ import annotations

import copy
import warnings
from dataclasses import dataclass, field
from typing import Any

import networkx as nx
import numpy as np

from . import refs

CUSTOM_NODE = "score"
CUSTOM_EDGE = "ew"
CUSTOM_REQ = "quality"  # a registered custom feature with required=True
NEW_KEY = "note"
CUSTOM_DEFAULT = "ctype"  # registered str feature with a default value, set on some nodes only
OPTIONAL = ["ellipse_axis_radii", "circularity", "perimeter", "iou"]


# ----------------------------------------------------------------------------------------
# initial state
# ----------------------------------------------------------------------------------------
def gen_config(rnd, *, seg=None, ndim=None, allow_optional=True, per_axis=True, allow_seg_axes=False,
               max_frames=6, big_frames=False, allow_stray=False, allow_default_feature=False,
               allow_partial_registry=False) -> dict:
    ndim = ndim if ndim is not None else (4 if rnd.random() < 0.25 else 3)
    seg = seg if seg is not None else rnd.random() < 0.6
    r = rnd.random()
    if r < 0.35:
        scale = None
    elif r < 0.6:
        s = rnd.choice([1.0, 2.0, 0.5])
        scale = [1.0] + [s] * (ndim - 1)
    else:
        scale = [1.0] + [rnd.choice([0.5, 1.0, 2.0, 3.0]) for _ in range(ndim - 1)]
    iso = scale is None or len(set(scale[1:])) == 1
    cfg: dict[str, Any] = {
        "ndim": ndim,
        "seg": seg,
        "scale": scale,
        "time_key": rnd.choice(["time", "time", "t"]),
        "pos_key": rnd.choice(["pos", "pos", "centroid"]),
        "pos_mode": "single",
        "tracklet_key": rnd.choice([None, None, "track_id", "tid"]),
        "lineage_key": rnd.choice([None, None, "lin"]),
        "route": rnd.choice(["bare", "bare", "ids", "featuredict", "from_tracks", "from_tracks_ids",
                             "from_tracks_partial_ids"]),
        "frames": rnd.randint(3, max_frames),
        "optional": [],
    }
    if cfg["route"] == "from_tracks_partial_ids":
        cfg["partial_kind"] = rnd.choice(["both", "both", "lineage_only", "no_lineage_at_all"])
    if allow_partial_registry and cfg["route"] == "featuredict" and rnd.random() < 0.4:
        cfg["fd_drop_lineage"] = True  # a pre-built registry that does not list the lineage feature
    if seg:
        cfg["shape"] = [4, 6, 6] if ndim == 4 else rnd.choice([[8, 8], [9, 7], [10, 10]])
        if big_frames and rnd.random() < 0.5:
            cfg["shape"] = [5, 8, 9] if ndim == 4 else rnd.choice([[18, 17], [20, 12]])
            if rnd.random() < 0.35:
                # frames of more than 1024 elements (thresholds of "small frame" shortcuts)
                cfg["shape"] = [6, 14, 13] if ndim == 4 else rnd.choice([[36, 30], [25, 45]])
        cfg["seg_dtype"] = rnd.choice(["int64", "int32", "uint16", "uint64", "uint32", "uint16", "uint8"])
        # the constructor accepts pos_attr=[axes] together with a segmentation (the computed
        # centroid replaces it) - the per-axis attributes then just stay on the nodes
        cfg["seg_stale_axes"] = rnd.random() < 0.15
        if allow_seg_axes and rnd.random() < 0.12:
            # segmentation together with per-axis position attributes: only constructible through
            # a pre-built FeatureDict; positions are static there, so such tracks are only
            # queried / exported (cfg["static"]), never edited
            cfg["seg_axes"] = True
            cfg["static"] = True
            cfg["route"] = "bare"
            allow_optional = False
        if allow_optional:
            opts = []
            for k in OPTIONAL:
                if k in ("circularity", "perimeter") and ndim == 3 and not iso:
                    continue  # skimage: 2D perimeter supports isotropic spacing only
                if rnd.random() < (0.2 if ndim == 4 and k != "iou" else 0.45):
                    opts.append(k)
            cfg["optional"] = opts
    else:
        cfg["shape"] = [8, 8, 8][: ndim - 1]
        if per_axis and rnd.random() < 0.3:
            cfg["pos_mode"] = "axes"
    if allow_default_feature and rnd.random() < 0.3:
        cfg["default_feature"] = True  # see CUSTOM_DEFAULT
    if rnd.random() < 0.25:
        # ids, times and labels reach the library as numpy integers (what a label layer or a
        # table hands over) instead of Python ints; edges / node pairs as lists instead of tuples
        cfg["id_repr"] = rnd.choice(["np.int64", "np.int64", "np.uint64", "np.intp"])
    if rnd.random() < 0.2:
        cfg["seq_repr"] = "list"
    if rnd.random() < 0.25:
        cfg["feature_metadata"] = True
    if seg and rnd.random() < 0.2:
        # the same label values in another memory layout: Fortran order, a crop (view) of a larger
        # array, an axis-moved view
        cfg["seg_layout"] = rnd.choice(["F", "crop", "moveaxis"])
    if seg and rnd.random() < 0.25:
        cfg["pix_dtype"] = rnd.choice(["uint32", "uint64", "intp", "int32"])  # index arrays of a stroke
    if not seg and rnd.random() < 0.3:
        cfg["axes_reversed"] = True  # per-axis position keys listed x, y[, z] (only used with pos_mode "axes")
    if seg and rnd.random() < 0.08 and np.dtype(cfg["seg_dtype"]).itemsize > 1:
        cfg["seg_big_endian"] = True  # non-native byte order, as some TIFF readers return it
    if not seg and rnd.random() < 0.15:
        cfg["int_first_axis"] = True  # first coordinate an integer (a z-slice index), others fractional
    if allow_stray and seg and not cfg.get("static") and rnd.random() < 0.15:
        # the label image also holds detections that are no nodes of the solution ("unselected
        # detections", which the annotators skip): they must survive everything untouched
        cfg["stray"] = True
    if big_frames and not cfg.get("static") and rnd.random() < 0.2:
        cfg["layout"] = "lanes"  # long tracks over all frames (see _gen_init_lanes)
        cfg["frames"] = rnd.randint(max(3, max_frames - 4), max_frames + 4)
    return cfg


def _rand_box(rnd, shape, maxlen=None, minlen=1):
    lo, hi = [], []
    for s in shape:
        ln = rnd.randint(minlen, min(s, maxlen or max(minlen, s // 2 + 1)))
        a = rnd.randint(0, s - ln)
        lo.append(a)
        hi.append(a + ln)
    return [lo, hi]


def box_mask(shape, boxes) -> np.ndarray:
    m = np.zeros(tuple(shape), dtype=bool)
    for lo, hi in boxes:
        m[tuple(slice(a, b) for a, b in zip(lo, hi))] = True
    return m


def _gen_init_lanes(rnd, cfg) -> dict:
    """Long tracks: 2-4 lanes (bands of rows) that each hold one track over all frames, with
    occasional gaps (skip edges) and at most one division per lane; ids are dense, strided by
    frame ((t+1)*stride+lane) or shuffled - 20-50 nodes."""
    frames, shape = cfg["frames"], cfg["shape"]
    k = rnd.randint(2, max(2, min(4, shape[0] // 2)))
    band = shape[0] // k
    id_max = int(np.iinfo(cfg["seg_dtype"]).max) if cfg["seg"] else 2**62
    stride = rnd.choice([0, 0, 10, 1000, 10000])
    if cfg.get("lane_stride") is not None:
        stride = int(cfg["lane_stride"])
    if (frames + 1) * stride + 2 * k + 2 > id_max:
        stride = 0
    nodes, nxt = [], 1
    for lane in range(k):
        heads = [(None, lane * band, (lane + 1) * band)]  # (parent, first row, end row) of live branches
        for t in range(frames):
            new_heads = []
            for j, (parent, r0, r1) in enumerate(heads):
                if parent is not None and rnd.random() < 0.12 and t < frames - 1:
                    new_heads.append((parent, r0, r1))  # a gap: the next node hangs on a skip edge
                    continue
                nid = (t + 1) * stride + 2 * lane + j + 1 if stride else nxt
                nxt += 1
                node = {"id": nid, "t": t, "parent": None if parent is None else parent["id"],
                        CUSTOM_NODE: round(rnd.random() * 10, 3)}
                if parent is not None:
                    node[CUSTOM_EDGE] = rnd.choice([0, 1, 2, 5])
                h = rnd.randint(1, max(1, min(3, r1 - r0)))
                a = rnd.randint(r0, r1 - h)
                rest_lo, rest_hi = [a], [a + h]
                for s_ in shape[1:]:
                    ln = rnd.randint(1, min(3, s_))
                    b = rnd.randint(0, s_ - ln)
                    if parent is not None and "boxes" in parent and rnd.random() < 0.7:
                        b = max(0, min(s_ - ln, parent["boxes"][0][0][len(rest_lo)] + rnd.randint(-1, 1)))
                    rest_lo.append(b)
                    rest_hi.append(b + ln)
                if cfg["seg"]:
                    node["boxes"] = [[rest_lo, rest_hi]]
                else:
                    node["pos"] = [round((lo + hi) / 2, 2) for lo, hi in zip(rest_lo, rest_hi)]
                nodes.append(node)
                if len(heads) == 1 and r1 - r0 >= 2 and rnd.random() < 0.1 and t < frames - 1:
                    mid = (r0 + r1) // 2
                    new_heads += [(node, r0, mid), (node, mid, r1)]  # division: two half-bands
                else:
                    new_heads.append((node, r0, r1))
            heads = new_heads
    nodes.sort(key=lambda n: (n["t"], n["id"]))
    return {"cfg": cfg, "nodes": nodes,
            "id_offsets": [rnd.randint(0, 6), rnd.randint(0, 6) + (300 if rnd.random() < 0.3 else 0)],
            "perm_seed": rnd.randint(1, 10**6) if rnd.random() < 0.5 else None}


def gen_init(rnd, cfg=None, *, max_nodes=10, need_edges=False) -> dict:
    cfg = cfg if cfg is not None else gen_config(rnd)
    if cfg.get("layout") == "lanes":
        return _gen_init_lanes(rnd, cfg)
    frames = cfg["frames"]
    shape = cfg["shape"]
    n = rnd.choice([0, 1, 2]) if rnd.random() < 0.08 and not need_edges else rnd.randint(3, max_nodes)
    ids = []
    cur = rnd.choice([0, 0, 0, 5, 40]) if rnd.random() < 0.5 else 0
    id_max = int(np.iinfo(cfg["seg_dtype"]).max) if cfg["seg"] else 2**62
    if rnd.random() < 0.15:
        # large ids: beyond one / two bytes, near the limits of the label dtype (products and
        # codes built from labels overflow there), around 2**16 and 2**20
        bases = [b for b in (200, 250, 4000, 65300, 65500, 70000, 1_000_000) if b + 40 < id_max]
        if not cfg["seg"]:
            bases += [2**31 - 20, 2**40]
        cur = rnd.choice(bases)
    if not cfg["seg"] and rnd.random() < 0.25 and cur == 0:
        cur = -1  # node id 0 is a valid id when there is no label image
    for _ in range(n):
        cur += rnd.choice([1, 1, 1, 2, 3, 7])
        if cur > id_max:
            break  # the label dtype has no room for more ids
        ids.append(cur)
    times = sorted(rnd.randint(0, frames - 1) for _ in range(n))
    nodes = []
    children: dict[int, int] = {}
    occupied = [np.zeros(tuple(shape), dtype=bool) for _ in range(frames)] if cfg["seg"] else None
    p_link = rnd.choice([0.5, 0.8, 0.95])
    if rnd.random() < 0.04:
        p_link = 0.0  # detections only: every link is made later, by edits
    p_div = rnd.choice([0.1, 0.3, 0.6])
    for nid, t in zip(ids, times):
        parent = None
        cands = [m for m in nodes if m["t"] < t and children.get(m["id"], 0) < 2]
        if cands and rnd.random() < p_link:
            # prefer childless candidates unless a division is wanted
            free = [m for m in cands if children.get(m["id"], 0) == 0]
            pool = cands if (rnd.random() < p_div or not free) else free
            # prefer the closest earlier frame (skip edges still arise)
            pool = sorted(pool, key=lambda m: (t - m["t"], m["id"]))
            parent = pool[0] if rnd.random() < 0.6 else rnd.choice(pool)
        node: dict[str, Any] = {"id": nid, "t": t, "parent": None if parent is None else parent["id"],
                                CUSTOM_NODE: 0.0 if rnd.random() < 0.2 else round(rnd.random() * 10, 3)}
        if cfg.get("default_feature") and rnd.random() < 0.5:
            node[CUSTOM_DEFAULT] = rnd.choice(["a", "b", ""])
        if parent is not None:
            # falsy values on purpose (0): "if value:" instead of "is not None" must show
            node[CUSTOM_EDGE] = rnd.choice([0, 0, 1, 2, 3, 5, 9])
        if cfg["seg"]:
            boxes = _place_boxes(rnd, shape, occupied[t], near=None if parent is None else parent.get("boxes"),
                                 thick=cfg["ndim"] == 4)
            if boxes is None:
                continue  # frame full: skip this node (construction, not rejection of the case)
            node["boxes"] = boxes
            occupied[t] |= box_mask(shape, boxes)
        else:
            node["pos"] = [round(rnd.random() * (s - 1), 2) for s in shape]
        nodes.append(node)
        if parent is not None:
            children[parent["id"]] = children.get(parent["id"], 0) + 1
    stray = []
    if cfg.get("stray") and nodes:
        used = {m["id"] for m in nodes}
        gaps = [i for i in range(min(used) + 1, max(used)) if i not in used]
        rnd.shuffle(gaps)
        for lab in gaps[: rnd.randint(1, 3)]:
            t = rnd.randint(0, frames - 1)
            boxes = _place_boxes(rnd, shape, occupied[t], thick=cfg["ndim"] == 4)
            if boxes is None:
                continue
            occupied[t] |= box_mask(shape, boxes)
            stray.append({"label": lab, "t": t, "boxes": boxes})
    # parents that were skipped (frame full) cannot happen: parents are taken from ``nodes``
    return {"cfg": cfg, "nodes": nodes, "stray": stray,
            "id_offsets": [rnd.choice([0, rnd.randint(0, 6)]) + (300 if rnd.random() < 0.2 else 0),
                           rnd.choice([0, rnd.randint(0, 6)]) + (300 if rnd.random() < 0.2 else 0)],
            # order in which nodes enter the graph and in which pre-existing ids are handed to
            # the tracklets / lineages (None: sorted by node id, increasing ids)
            "perm_seed": rnd.randint(1, 10**6) if rnd.random() < 0.5 else None}


def _place_boxes(rnd, shape, occ, near=None, thick=False):
    """1-3 boxes on background, optionally near another mask (so IoUs are often > 0)."""
    minlen = 2 if thick else 1
    for _ in range(12):
        if near is not None and rnd.random() < 0.7:
            lo, hi = near[0]
            box = [[], []]
            for a, b, s in zip(lo, hi, shape):
                sh = rnd.randint(-1, 1)
                a2 = min(max(a + sh, 0), s - 1)
                b2 = min(max(b + sh + rnd.randint(-1, 1), a2 + minlen), s)
                if b2 - a2 < minlen:
                    a2 = max(0, b2 - minlen)
                box[0].append(a2)
                box[1].append(b2)
        else:
            box = _rand_box(rnd, shape, maxlen=3 if not thick else 3, minlen=minlen)
        m = box_mask(shape, [box])
        if (m & occ).any():
            # clip to background: keep the box only if a non-empty background part exists
            continue
        boxes = [box]
        # optional extra boxes (non-convex shapes)
        for _ in range(rnd.choice([0, 0, 1, 2])):
            b2 = _rand_box(rnd, shape, maxlen=2 if not thick else 3, minlen=minlen)
            if not (box_mask(shape, [b2]) & occ).any():
                boxes.append(b2)
        return boxes
    return None


# ----------------------------------------------------------------------------------------
OP_TIMEOUT_S = 20


class OpTimeout(BaseException):
    """One call into funtracks did not return within OP_TIMEOUT_S (e.g. a traversal
    that loops on a cyclic graph). The walk is abandoned and counted; a time limit is
    never reported as a violation by itself."""


class watchdog:
    def __init__(self, seconds):
        self.seconds = seconds

    def _handler(self, signum, frame):
        raise OpTimeout()

    def __enter__(self):
        import signal

        self._old = signal.signal(signal.SIGALRM, self._handler)
        signal.setitimer(signal.ITIMER_REAL, self.seconds)

    def __exit__(self, *exc):
        import signal

        signal.setitimer(signal.ITIMER_REAL, 0)
        signal.signal(signal.SIGALRM, self._old)
        return False


@dataclass
class Outcome:
    ok: bool
    exc: BaseException | None = None
    action: Any = None
    result: Any = None
    emitted: list = field(default_factory=list)
    info: dict = field(default_factory=dict)

    @property
    def exc_name(self):
        return None if self.exc is None else type(self.exc).__name__


class World:
    def __init__(self, init: dict, solution: bool = True):
        import funtracks.features as ff
        from funtracks.data_model import SolutionTracks

        self.init = init
        cfg = self.cfg = init["cfg"]
        self.ndim = cfg["ndim"]
        self.shape = tuple(cfg["shape"])
        self.frames = cfg["frames"]
        self.time_key = cfg["time_key"]
        g = nx.DiGraph()
        seg = None
        if cfg["seg"]:
            sdt = np.dtype(cfg["seg_dtype"])
            if cfg.get("seg_big_endian"):
                sdt = sdt.newbyteorder(">")
            seg = np.zeros((self.frames, *self.shape), dtype=sdt)
        axes = ["z", "y", "x"][-(self.ndim - 1):]
        if cfg.get("axes_reversed") and not cfg["seg"] and cfg["pos_mode"] == "axes":
            axes = axes[::-1]
        order = list(init["nodes"])
        perm = None
        if init.get("perm_seed") is not None:
            import random as _random

            perm = _random.Random(int(init["perm_seed"]))
            perm.shuffle(order)
        for nd in order:
            attrs = {self.time_key: nd["t"], CUSTOM_NODE: nd[CUSTOM_NODE], CUSTOM_REQ: int(nd["id"]) % 5}
            if nd.get(CUSTOM_DEFAULT) is not None:
                attrs[CUSTOM_DEFAULT] = nd[CUSTOM_DEFAULT]
            if cfg["seg"]:
                m = box_mask(self.shape, nd["boxes"])
                seg[nd["t"]][m] = nd["id"]
                if cfg.get("seg_stale_axes") and not cfg.get("seg_axes"):
                    sp_ = [1.0] * (self.ndim - 1) if cfg["scale"] is None else cfg["scale"][1:]
                    for a, ix, s_ in zip(axes, np.nonzero(m), sp_):
                        attrs[a] = float(ix.mean()) * s_
            elif cfg["pos_mode"] == "axes":
                for a, v in zip(axes, nd["pos"]):
                    attrs[a] = v
            else:
                attrs[cfg["pos_key"]] = list(nd["pos"])
            g.add_node(nd["id"], **attrs)
        for nd in order:
            if nd["parent"] is not None:
                g.add_edge(nd["parent"], nd["id"], **{CUSTOM_EDGE: nd[CUSTOM_EDGE]})
        if cfg.get("id_repr"):
            # the graph's own time / id attributes as numpy integers too (filled from arrays)
            for n in g.nodes:
                g.nodes[n][self.time_key] = self.rep(g.nodes[n][self.time_key])
        if cfg.get("int_first_axis") and not cfg["seg"]:
            for n in g.nodes:
                if cfg["pos_mode"] == "axes":
                    g.nodes[n][axes[0]] = int(g.nodes[n][axes[0]])
                else:
                    p_ = g.nodes[n][cfg["pos_key"]]
                    g.nodes[n][cfg["pos_key"]] = [int(p_[0]), *p_[1:]]
        self.stray0 = {}
        for sd in init.get("stray") or []:
            if seg is not None and sd["label"] not in g:
                seg[sd["t"]][box_mask(self.shape, sd["boxes"])] = sd["label"]
                self.stray0[int(sd["label"])] = int(sd["t"])
        tkey = cfg["tracklet_key"] or "track_id"
        lkey = cfg["lineage_key"] or "lineage_id"
        if cfg["route"] in ("ids", "from_tracks_ids", "from_tracks_partial_ids"):
            # valid, non-contiguous ids already on the graph -> detected, not recomputed
            o1, o2 = init["id_offsets"]
            tcls = sorted(refs.tracklets(g.nodes, g.edges), key=lambda c: min(c))
            lcls = sorted(refs.lineages(g.nodes, g.edges), key=lambda c: min(c))
            trank, lrank = list(range(len(tcls))), list(range(len(lcls)))
            if perm is not None:  # ids in no particular order along the node sequence
                perm.shuffle(trank)
                perm.shuffle(lrank)
            for i, cls in zip(trank, tcls):
                for n in cls:
                    g.nodes[n][tkey] = self.rep(o1 + 2 * i)  # 0-based ids occur (o1 == 0)
            for i, cls in zip(lrank, lcls):
                for n in cls:
                    g.nodes[n][lkey] = self.rep(o2 + 3 * i)
        seg = self._layout(seg)
        if cfg.get("seg_axes"):
            self._init_seg_axes(g, seg, axes, tkey, lkey)
            return
        pos_attr = axes if (not cfg["seg"] and cfg["pos_mode"] == "axes") else cfg["pos_key"]
        if cfg["seg"] and cfg.get("seg_stale_axes"):
            pos_attr = axes
        kwargs = dict(
            segmentation=seg,
            time_attr=self.time_key,
            pos_attr=pos_attr,
            tracklet_attr=cfg["tracklet_key"],
            lineage_attr=cfg["lineage_key"],
            scale=copy.deepcopy(cfg["scale"]),
            ndim=self.ndim,
        )
        with warnings.catch_warnings():
            warnings.simplefilter("ignore")
            if cfg["route"] == "from_tracks_partial_ids" and g.number_of_nodes():
                # one node lost its ids: from_tracks must recompute all of them (over the old ones)
                victim = sorted(g.nodes)[len(g) // 2]
                kind = cfg.get("partial_kind", "both")
                if kind != "lineage_only":
                    g.nodes[victim].pop(tkey, None)
                g.nodes[victim].pop(lkey, None)
                if kind == "no_lineage_at_all":  # e.g. a file with track ids only
                    for n in g.nodes:
                        g.nodes[n].pop(lkey, None)
            if cfg["route"] in ("from_tracks", "from_tracks_ids", "from_tracks_partial_ids"):
                # a plain Tracks object promoted to a solution (ids are computed by from_tracks)
                from funtracks.data_model import Tracks

                tracks = SolutionTracks.from_tracks(Tracks(g, **kwargs))
            else:
                tracks = SolutionTracks(g, **kwargs)
            if cfg["route"] == "featuredict":
                # second construction from a pre-built registry (as load_tracks/from_tracks do)
                js = copy.deepcopy(tracks.features.dump_json())
                if cfg.get("fd_drop_lineage") and tracks.features.lineage_key is not None:
                    # the lineage feature is simply not part of this registry: it stays switched
                    # off (the attribute on the graph is then nobody's business)
                    js["FeatureDict"]["features"].pop(tracks.features.lineage_key, None)
                    js["FeatureDict"]["lineage_key"] = None
                fd = ff.FeatureDict.from_json(js)
                tracks = SolutionTracks(g, segmentation=seg, scale=copy.deepcopy(cfg["scale"]),
                                        ndim=self.ndim, features=fd)
            tracks.features[CUSTOM_NODE] = ff.Feature(
                feature_type="node", value_type="float", num_values=1, display_name="Score",
                required=False, default_value=None)
            tracks.features[CUSTOM_REQ] = ff.Feature(
                feature_type="node", value_type="int", num_values=1, display_name="Quality",
                required=True, default_value=None)
            tracks.features[CUSTOM_EDGE] = ff.Feature(
                feature_type="edge", value_type="int", num_values=1, display_name="EdgeWeight",
                required=False, default_value=None)
            if cfg.get("feature_metadata"):
                # a registry entry with a field beyond the schema (unit of a measurement; the
                # "recompute" flag of older files)
                tracks.features[CUSTOM_NODE]["unit"] = "a.u."
                tracks.features[CUSTOM_EDGE]["recompute"] = False
            if cfg.get("default_feature"):
                tracks.features[CUSTOM_DEFAULT] = ff.Feature(
                    feature_type="node", value_type="str", num_values=1, display_name="Cell type",
                    required=False, default_value="unknown")
            if cfg.get("optional"):
                tracks.enable_features(list(cfg["optional"]))
        self.tracks = tracks
        self.tkey = tracks.features.tracklet_key
        self.lkey = tracks.features.lineage_key
        self.pos_key = tracks.features.position_key
        self.emissions: list = []
        tracks.refresh.connect(self._on_refresh)
        self.trace: list[dict] = []
        self.excluded: dict[str, int] = {}

    def _init_seg_axes(self, g, seg, axes, tkey, lkey):
        import funtracks.features as ff
        from funtracks.data_model import SolutionTracks

        cfg = self.cfg
        sp = [1.0] * (self.ndim - 1) if cfg["scale"] is None else cfg["scale"][1:]
        for n in list(g.nodes):
            t = g.nodes[n][self.time_key]
            idx = np.nonzero(seg[t] == n)
            for a, ix, s_ in zip(axes, idx, sp):
                g.nodes[n][a] = float(ix.mean()) * s_
        for i, cls in enumerate(sorted(refs.tracklets(g.nodes, g.edges), key=lambda c: min(c))):
            for n in cls:
                g.nodes[n][tkey] = 1 + i
        for i, cls in enumerate(sorted(refs.lineages(g.nodes, g.edges), key=lambda c: min(c))):
            for n in cls:
                g.nodes[n][lkey] = 1 + i
        ax = {"feature_type": "node", "value_type": "float", "num_values": 1, "required": True, "default_value": None}
        feats = {self.time_key: ff.Time(), tkey: ff.TrackletID(), lkey: ff.LineageID()}
        for a in axes:
            feats[a] = dict(ax)
        fd = ff.FeatureDict(feats, time_key=self.time_key, position_key=list(axes), tracklet_key=tkey, lineage_key=lkey)
        with warnings.catch_warnings():
            warnings.simplefilter("ignore")
            tracks = SolutionTracks(g, segmentation=seg, scale=copy.deepcopy(cfg["scale"]), ndim=self.ndim, features=fd)
            tracks.features[CUSTOM_NODE] = ff.Feature(feature_type="node", value_type="float", num_values=1,
                                                      display_name="Score", required=False, default_value=None)
        self.tracks = tracks
        self.tkey, self.lkey, self.pos_key = tkey, lkey, list(axes)
        self.emissions = []
        tracks.refresh.connect(self._on_refresh)
        self.trace = []
        self.excluded = {}

    def _on_refresh(self, *args):
        self.emissions.append(args)

    # -- views -----------------------------------------------------------------------------
    def stray_now(self) -> dict[int, int]:
        """label -> frame of the detections in the label image that are (still) no nodes"""
        g = self.tracks.graph
        seg = self.tracks.segmentation
        return {lab: t for lab, t in getattr(self, "stray0", {}).items()
                if lab not in g and seg is not None and (seg[t] == lab).any()}

    def nodes(self) -> list[int]:
        return sorted(int(n) for n in self.tracks.graph.nodes)

    def edges(self) -> list[tuple[int, int]]:
        return sorted((int(u), int(v)) for u, v in self.tracks.graph.edges)

    def time(self, n) -> int:
        return int(self.tracks.graph.nodes[n][self.time_key])

    def track_ids(self) -> list[int]:
        return sorted({int(d[self.tkey]) for _, d in self.tracks.graph.nodes(data=True) if d.get(self.tkey) is not None})

    def spacing(self):
        return None if self.tracks.scale is None else tuple(self.tracks.scale[1:])

    def mask(self, n) -> np.ndarray:
        return self.tracks.segmentation[self.time(n)] == n

    # -- execution -------------------------------------------------------------------------
    def apply(self, op: dict) -> Outcome:
        self.trace.append(op)
        self.emissions = []
        out = Outcome(ok=True)
        try:
            with warnings.catch_warnings(), watchdog(OP_TIMEOUT_S):
                warnings.simplefilter("ignore")
                self._dispatch(op, out)
        except OpTimeout:
            raise
        except Exception as e:  # noqa: BLE001 - a refusal (whatever the type); oracles decide
            out.ok = False
            out.exc = e
            if op["op"] == "paint" and "restore" in out.info:
                out.info["restore"]()  # the caller's duty named in C11
        out.emitted = list(self.emissions)
        return out

    def _layout(self, seg):
        kind = self.cfg.get("seg_layout")
        if seg is None or kind is None:
            return seg
        if kind == "F":
            return np.asfortranarray(seg)
        if kind == "crop":
            big = np.zeros(tuple(s_ + 2 for s_ in seg.shape), dtype=seg.dtype)
            view = big[tuple(slice(1, -1) for _ in seg.shape)]
            view[...] = seg
            return view
        moved = np.ascontiguousarray(np.moveaxis(seg, 0, -1))  # time last in memory
        return np.moveaxis(moved, -1, 0)

    def rep(self, x):
        """The caller's representation of an id / time / label: Python int (default), or the
        numpy integer a label layer or a table hands over (cfg["id_repr"]); equal by value."""
        kind = self.cfg.get("id_repr")
        if kind is None or isinstance(x, bool) or not isinstance(x, (int, np.integer)):
            return x
        if kind == "np.uint64" and x < 0:
            return np.int64(x)
        return {"np.int64": np.int64, "np.uint64": np.uint64, "np.intp": np.intp}[kind](x)

    def _dispatch(self, op: dict, out: Outcome) -> None:
        import funtracks.user_actions as ua

        tr = self.tracks
        kind = op["op"]
        rep = self.rep
        seq = (lambda xs: [rep(x) for x in xs]) if self.cfg.get("seq_repr") == "list" else (lambda xs: tuple(rep(x) for x in xs))
        if kind == "add_node":
            attrs = dict(op["attrs"])
            for k_ in (self.time_key, self.tkey):
                if k_ in attrs:
                    attrs[k_] = rep(attrs[k_])
            pixels = None
            if op.get("pixels") is not None:
                pdt = np.dtype("int64" if op.get("bad_pixels") else (self.cfg.get("pix_dtype") or "int64"))
                pixels = tuple(np.asarray(a, dtype=pdt) for a in op["pixels"])
            # (an id the label dtype cannot hold stays a Python int: numpy scalars wrap silently)
            node = rep(op["node"])
            if tr.segmentation is not None and isinstance(op["node"], int) and \
                    op["node"] > int(np.iinfo(tr.segmentation.dtype).max):
                node = op["node"]  # numpy scalars would wrap silently; a Python int is refused
            if op.get("reuse_attrs") and getattr(self, "_last_add_attrs", None) is not None:
                # the caller keeps one attribute dict and re-uses it for the next node: it sets the
                # keys it knows about (the ones it passed before) and hands the same object over
                obj = self._last_add_attrs
                for k_ in self._last_add_keys:
                    obj.pop(k_, None)
                obj.update(attrs)
                attrs = obj
            self._last_add_attrs, self._last_add_keys = attrs, list(attrs)
            out.action = ua.UserAddNode(tr, node, attrs, pixels=pixels, force=op.get("force", False))
        elif kind == "delete_node":
            if op.get("known_pixels") and tr.segmentation is not None and op["node"] in tr.graph:
                # "the pixels of the node, if known": the caller looked them up itself
                out.action = ua.UserDeleteNode(tr, rep(op["node"]), pixels=tr.get_pixels(op["node"]))
            else:
                out.action = ua.UserDeleteNode(tr, rep(op["node"]))
        elif kind == "add_edge":
            out.action = ua.UserAddEdge(tr, seq(op["edge"]), force=op.get("force", False))
        elif kind == "delete_edge":
            out.action = ua.UserDeleteEdge(tr, seq(op["edge"]))
        elif kind == "swap":
            out.action = ua.UserSwapPredecessors(tr, seq(op["nodes"]))
        elif kind == "attrs":
            out.action = ua.UserUpdateNodeAttrs(tr, rep(op["node"]), dict(op["attrs"]))
        elif kind == "paint":
            self._paint(op, out)
        elif kind == "ctrl_add_nodes":
            # the (deprecated) controller entry point: several nodes in one call, any order
            from funtracks.data_model.tracks_controller import TracksController

            attrs = {k: list(v) for k, v in op["attrs"].items()}
            pixels = None
            if op.get("pixels") is not None:
                pixels = [tuple(np.asarray(a, dtype=np.int64) for a in px) for px in op["pixels"]]
            TracksController(tr).add_nodes(attrs, pixels=pixels)
        elif kind == "undo":
            out.result = tr.undo()
        elif kind == "redo":
            out.result = tr.redo()
        elif kind == "enable":
            tr.enable_features(list(op["keys"]))
        elif kind == "disable":
            tr.disable_features(list(op["keys"]))
        else:
            raise AssertionError(f"unknown op {kind}")

    def _paint(self, op: dict, out: Outcome) -> None:
        """Play the GUI: paint first, then report the changed pixels grouped by old value."""
        import funtracks.user_actions as ua

        tr = self.tracks
        seg = tr.segmentation
        t = int(op["time"])
        value = int(op["value"])
        pdt = np.dtype(self.cfg.get("pix_dtype") or "int64")
        sp = tuple(np.asarray(a, dtype=pdt) for a in op["pixels"])
        full = (np.full(len(sp[0]), t, dtype=pdt), *sp)
        sf = op.get("second_frame")
        if sf is not None:  # stroke data spanning two time points (an invalid argument)
            sp2 = tuple(np.asarray(a, dtype=pdt) for a in sf["pixels"])
            full2 = (np.full(len(sp2[0]), int(sf["time"]), dtype=pdt), *sp2)
            parts = (full2, full) if sf.get("first") else (full, full2)
            full = tuple(np.concatenate([a, b]) for a, b in zip(*parts))
        old = seg[full].copy()
        changed = old != value
        out.info["changed"] = int(changed.sum())
        if not changed.any():
            if op.get("report_unchanged"):
                # a stroke that changes no pixel, still reported by the caller: a valid
                # user action with nothing to do (one history step, one refresh)
                grp = (tuple(a for a in full), value) if value == 0 else None
                out.info["painted"] = seg.copy()
                out.info["overwritten"] = []
                out.action = ua.UserUpdateSegmentation(tr, self.rep(value), [grp] if grp else [], self.rep(op["track_id"]),
                                                       force=op.get("force", False))
                return
            out.info["noop"] = True
            return
        full = tuple(a[changed] for a in full)
        old = old[changed]
        before = seg[full].copy()
        seg[full] = value

        def restore():
            seg[full] = before

        out.info["restore"] = restore
        olds = sorted({int(v) for v in old.tolist()}, reverse=op.get("order") == "desc")
        updated = []
        for v in olds:
            # one group per (previous value, frame), as a per-frame label layer reports them
            for tt in sorted({int(x) for x in full[0][old == v].tolist()}):
                sel = (old == v) & (full[0] == tt)
                updated.append((tuple(a[sel] for a in full), v))
        out.info["painted"] = seg.copy()
        out.info["overwritten"] = [v for v in olds if v != 0]
        out.action = ua.UserUpdateSegmentation(tr, self.rep(value), [(px, self.rep(v)) for px, v in updated],
                                               self.rep(op["track_id"]), force=op.get("force", False))


# ----------------------------------------------------------------------------------------
# op generation from the current state
# ----------------------------------------------------------------------------------------
PROFILES = {
    # weights of op kinds; per-walk one of several "swarm" variants is chosen
    # (optional features are switched at a low rate in most profiles: edits must behave the
    # same whatever is enabled; not in "history", whose timeline compares registered key sets)
    "general": {"add_node": 3, "delete_node": 2, "add_edge": 4, "delete_edge": 2, "swap": 1,
                "attrs": 1, "paint": 4, "undo": 2, "redo": 1, "enable": 0.5, "disable": 0.5},
    "structure": {"add_node": 3, "delete_node": 3, "add_edge": 5, "delete_edge": 3, "swap": 2,
                  "paint": 2, "undo": 2, "redo": 1, "enable": 0.4, "disable": 0.4},
    "history": {"add_node": 2, "delete_node": 1, "add_edge": 2, "delete_edge": 1, "swap": 1,
                "attrs": 2, "paint": 2, "undo": 6, "redo": 4},
    "paint": {"add_node": 1, "delete_node": 1, "add_edge": 2, "delete_edge": 1, "paint": 8,
              "undo": 3, "redo": 1, "enable": 0.4, "disable": 0.4, "ctrl_add_nodes": 0.7},
    "refusal": {"add_node": 4, "delete_node": 2, "add_edge": 4, "delete_edge": 2, "swap": 2,
                "attrs": 2, "paint": 4, "undo": 1, "redo": 1},
    "features": {"add_node": 1, "delete_node": 1, "add_edge": 2, "delete_edge": 1, "attrs": 2,
                 "paint": 4, "undo": 2, "redo": 1, "enable": 4, "disable": 3},
}


def swarm(rnd, profile: str) -> dict:
    """Per-walk variation of a profile: each op kind is kept with prob. 0.8 (swarm testing)."""
    base = PROFILES[profile]
    w = {k: v for k, v in base.items() if rnd.random() < 0.8}
    return w or dict(base)


def _pick(rnd, seq):
    return seq[rnd.randint(0, len(seq) - 1)]


def _unused_node_id(world, rnd):
    v = _unused_node_id0(world, rnd)
    stray = world.stray_now()
    while v in stray:  # labels are unique across time: never the label of an unselected detection
        v = max([*world.nodes(), *stray, v]) + 1
    return v


def _unused_node_id0(world, rnd):
    nodes = world.nodes()
    r = rnd.random()
    if r < 0.5:
        with warnings.catch_warnings():
            warnings.simplefilter("ignore")
            return int(world.tracks._get_new_node_ids(1)[0])
    top = max(nodes) if nodes else 0
    if world.tracks.segmentation is None and 0 not in nodes and r > 0.9:
        return 0  # a valid node id when there is no label image
    if r < 0.8:
        return top + rnd.randint(1, 6)
    # a gap below the maximum, if any
    used = set(nodes) | set(world.stray_now())  # labels are unique across time
    free = [i for i in range(max(1, top - 300), top) if i not in used]
    return _pick(rnd, free) if free else top + 1


def gen_op(world: World, rnd, weights: dict, refusal_bias: float = 0.08) -> dict:
    nodes = world.nodes()
    has_seg = world.tracks.segmentation is not None
    kinds = [k for k in weights if (k != "paint" or has_seg)]
    if not nodes:
        kinds = [k for k in kinds if k in ("add_node", "paint", "undo", "redo", "enable", "disable")] or ["add_node"]
    weights = {k: weights.get(k, 1) for k in kinds}
    total = sum(weights[k] for k in kinds)
    x = rnd.random() * total
    kind = kinds[-1]
    for k in kinds:
        x -= weights[k]
        if x < 0:
            kind = k
            break
    if "undo" in weights and world.trace and world.trace[-1]["op"] == "undo" and rnd.random() < 0.45:
        kind = "undo"  # undos come in bursts (several steps back, then a new edit)
    # scripted episodes (a planned mini-sequence is played out before anything else is drawn)
    plan = getattr(world, "plan", None)
    if plan:
        while plan:
            op = plan.pop(0)(world, rnd)
            if op is not None:
                return op
    if ("enable" in weights and "disable" in weights and "undo" in weights and has_seg and nodes
            and rnd.random() < 0.03):
        _plan_toggle_episode(world, rnd)
        if world.plan:
            return gen_op(world, rnd, weights, refusal_bias)
    last = world.trace[-1] if world.trace else None
    if last is not None and last["op"] in ("enable", "iou_toggle", "feature_toggle") and last.get("mode", "enable") != "disable" \
            and "undo" in weights and rnd.random() < 0.3:
        return {"op": "undo"}
    if last is not None and last["op"] == "enable" and "undo" in weights and rnd.random() < 0.3:
        kind = "undo"  # look at history right after a feature came back (values must be current)
    if (last is not None and last["op"] == "paint" and "delete_node" in weights and last.get("value")
            and int(last["value"]) in nodes and rnd.random() < 0.12):
        return {"op": "delete_node", "node": int(last["value"])}  # delete what was just repainted
    bad = rnd.random() < refusal_bias  # deliberately invalid argument
    tr = world.tracks
    if kind == "add_node":
        for _ in range(4):
            op = _gen_add_node(world, rnd, bad)
            if masks_defined(world, op):
                return op
            world.excluded["shape_reference_undefined"] = world.excluded.get("shape_reference_undefined", 0) + 1
        op["pixels"] = None
        return op
    if kind == "delete_node":
        n = (max(nodes) + rnd.randint(1, 3)) if bad else _pick(rnd, nodes)
        op = {"op": "delete_node", "node": n}
        if has_seg and rnd.random() < 0.3:
            op["known_pixels"] = True
        return op
    if kind == "add_edge":
        if bad and rnd.random() < 0.5:
            e = [_pick(rnd, nodes), max(nodes) + 2]
            if rnd.random() < 0.5:
                e.reverse()
        elif len(nodes) >= 2 and rnd.random() < 0.3:
            # re-parenting inside one lineage: a target that already has a parent and an
            # earlier source from the same connected component (forced merges that
            # restructure a lineage, e.g. onto the sibling branch of a division)
            g = tr.graph
            import networkx as _nx

            withp = [v for v in nodes if g.in_degree(v) > 0]
            e = None
            if withp:
                v = _pick(rnd, withp)
                comp = _nx.node_connected_component(g.to_undirected(as_view=True), v)
                cands = sorted(u for u in comp if world.time(u) < world.time(v) and u != v)
                leaves = [u for u in cands if g.out_degree(u) == 0]
                pool = leaves if (leaves and rnd.random() < 0.6) else cands
                if pool:
                    e = [_pick(rnd, pool), v]
            if e is None:
                e = [_pick(rnd, nodes), _pick(rnd, nodes)]
            return {"op": "add_edge", "edge": e, "force": rnd.random() < 0.7}
        elif len(nodes) >= 2 and rnd.random() < 0.6:
            # forward-in-time pair (more accepted edits), any pair otherwise
            u = _pick(rnd, nodes)
            later = [v for v in nodes if world.time(v) > world.time(u)]
            e = [u, _pick(rnd, later)] if later else [u, _pick(rnd, nodes)]
        else:
            e = [_pick(rnd, nodes), _pick(rnd, nodes)]
        return {"op": "add_edge", "edge": e, "force": rnd.random() < 0.45}
    if kind == "delete_edge":
        edges = world.edges()
        if edges and not bad:
            return {"op": "delete_edge", "edge": list(_pick(rnd, edges))}
        return {"op": "delete_edge", "edge": [_pick(rnd, nodes), _pick(rnd, nodes)]}
    if kind == "swap":
        if bad and rnd.random() < 0.4:
            k = rnd.choice([1, 3])
            return {"op": "swap", "nodes": [_pick(rnd, nodes) for _ in range(k)]}
        with_pred = [n for n in nodes if tr.graph.in_degree(n) > 0]
        a = _pick(rnd, with_pred) if with_pred and rnd.random() < 0.8 else _pick(rnd, nodes)
        same = [n for n in nodes if n != a and abs(world.time(n) - world.time(a)) <= 1]
        b = _pick(rnd, same) if same and rnd.random() < 0.7 else _pick(rnd, nodes)
        return {"op": "swap", "nodes": [a, b] if rnd.random() < 0.5 else [b, a]}
    if kind == "attrs":
        n = (max(nodes) + 1) if (bad and rnd.random() < 0.3) else _pick(rnd, nodes)
        r = rnd.random()
        if r < 0.55:
            attrs = {CUSTOM_NODE: 0.0 if rnd.random() < 0.2 else round(rnd.random() * 100, 3)}
            if world.cfg.get("default_feature") and rnd.random() < 0.4:
                attrs = {CUSTOM_DEFAULT: rnd.choice(["a", "c", "", "unknown"])}
        elif r < 0.63:
            attrs = {NEW_KEY: rnd.randint(0, 9)}
        elif r < 0.7:
            # several keys at once, the last one un-setting a registered required custom feature
            attrs = {NEW_KEY: rnd.randint(0, 9), CUSTOM_NODE: round(rnd.random(), 3), CUSTOM_REQ: None}
            if rnd.random() < 0.5:
                attrs = {CUSTOM_NODE: attrs[CUSTOM_NODE], CUSTOM_REQ: rnd.randint(0, 4)}
        else:
            prot = [world.time_key] + sorted(tr.annotators.all_features.keys())
            attrs = {_pick(rnd, prot): rnd.randint(0, 5)}
            if rnd.random() < 0.5:
                attrs = {CUSTOM_NODE: 1.5, **attrs}
        return {"op": "attrs", "node": n, "attrs": attrs}
    if kind == "paint":
        for _ in range(4):
            op = _gen_paint(world, rnd, bad)
            if masks_defined(world, op):
                return op
            world.excluded["shape_reference_undefined"] = world.excluded.get("shape_reference_undefined", 0) + 1
        return {"op": "undo"}
    if kind == "ctrl_add_nodes":
        op = _gen_ctrl_add_nodes(world, rnd)
        return op if op is not None else {"op": "undo"}
    if kind in ("undo", "redo"):
        return {"op": kind}
    if kind in ("enable", "disable"):
        return _gen_toggle(world, rnd, kind, bad)
    raise AssertionError(kind)


def _gen_track_id(world, rnd, t=None):
    tr = world.tracks
    tids = world.track_ids()
    r = rnd.random()
    if r < 0.04:
        return 0  # a user-chosen 0-based track id
    if tids and r < 0.5:
        return _pick(rnd, tids)
    if r < 0.8:
        return int(tr.get_next_track_id())
    if r > 0.97:
        return int(tr.get_next_track_id()) + 300  # ids beyond one byte (dtype choices downstream)
    return int(tr.get_next_track_id()) + rnd.randint(1, 6)


def _background_box(world, rnd, t, tries=8):
    seg = world.tracks.segmentation
    for _ in range(tries):
        box = _rand_box(rnd, world.shape, maxlen=3, minlen=2 if world.ndim == 4 else 1)
        m = box_mask(world.shape, [box])
        if not (seg[t][m] != 0).any():
            return m
    return None


def _gen_add_node(world, rnd, bad) -> dict:
    tr = world.tracks
    nodes = world.nodes()
    node = _pick(rnd, nodes) if (bad and nodes and rnd.random() < 0.3) else _unused_node_id(world, rnd)
    t = rnd.randint(0, world.frames - 1)
    tid = _gen_track_id(world, rnd)
    if bad and rnd.random() < 0.5:
        # place the (possibly refused) node where a successful run would have to do the most
        # sub-edits first: inside the gap of a skip edge, or on a division daughter's track
        slot = _busy_slot(world, rnd)
        if slot is not None:
            t, tid = slot
    attrs: dict[str, Any] = {world.time_key: t, world.tkey: tid, CUSTOM_REQ: rnd.randint(0, 4)}
    if rnd.random() < 0.5:
        attrs[CUSTOM_NODE] = round(rnd.random() * 10, 3)
    pixels = None
    missing_pos = bad and rnd.random() < (0.55 if isinstance(world.pos_key, list) else 0.35)
    if tr.segmentation is not None:
        if not missing_pos:
            m = _background_box(world, rnd, t)
            if m is not None:
                idx = np.nonzero(m)
                pixels = [np.full(len(idx[0]), t).tolist(), *[a.tolist() for a in idx]]
    elif not missing_pos:
        pos = [round(rnd.random() * (s - 1), 2) for s in world.shape]
        pk = world.pos_key
        if isinstance(pk, list):
            for k, v in zip(pk, pos):
                attrs[k] = v
        else:
            attrs[pk] = pos
    elif isinstance(world.pos_key, list) and rnd.random() < 0.6:
        # a *partial* position: some but not all per-axis keys
        pk = list(world.pos_key)
        drop = rnd.randint(0, len(pk) - 1)
        for i, k in enumerate(pk):
            if i != drop:
                attrs[k] = round(rnd.random() * 5, 2)
    stray_here = [lab for lab, ts in world.stray_now().items()]
    if stray_here and not bad and rnd.random() < 0.3:
        # an unselected detection becomes a node: its label as id, its frame, a clicked position
        # and no pixels (they are in the image already)
        node = _pick(rnd, stray_here)
        t = world.stray_now()[node]
        attrs[world.time_key] = t
        pixels = None
        idx = np.nonzero(tr.segmentation[t] == node)
        pk = world.pos_key
        pos = [float(a.mean()) for a in idx]
        if isinstance(pk, list):
            for k, v in zip(pk, pos):
                attrs[k] = v
        else:
            attrs[pk] = pos
    bad_pixels = None
    if bad:
        r = rnd.random()
        if r < 0.2:
            attrs.pop(world.time_key)
        elif r < 0.4:
            attrs.pop(world.tkey)
        elif r < 0.7:
            # pixels that cannot be written: no label image to write to, an index outside the
            # frame, a node id the label dtype cannot hold
            if tr.segmentation is None:
                pixels = [[t], *[[rnd.randint(0, s - 1)] for s in world.shape]]
                bad_pixels = "no_segmentation"
            elif pixels is not None:
                top = int(np.iinfo(tr.segmentation.dtype).max)
                if top < 2**32 and rnd.random() < 0.5 and node not in nodes:
                    node = top + rnd.randint(1, 5)
                    bad_pixels = "label_beyond_dtype"
                else:
                    ax = rnd.randint(1, len(pixels) - 1)
                    k = rnd.randint(0, len(pixels[ax]) - 1)
                    pixels[ax][k] = world.shape[ax - 1] + rnd.randint(0, 2)
                    bad_pixels = "out_of_bounds"
    op = {"op": "add_node", "node": node, "attrs": attrs, "pixels": pixels,
          "force": rnd.random() < 0.45}
    if not bad and rnd.random() < 0.2:
        op["reuse_attrs"] = True
    if bad_pixels:
        op["bad_pixels"] = bad_pixels
        op["force"] = rnd.random() < 0.75
        slot = _busy_slot(world, rnd)
        if slot is not None and op["pixels"] is not None and rnd.random() < 0.8:
            # where a successful run would have to do the most sub-edits first
            t2, tid2 = slot
            if bad_pixels == "out_of_bounds":
                pass  # (the pixels belong to frame t)
            else:
                op["attrs"][world.time_key] = t2
                op["pixels"][0] = [t2] * len(op["pixels"][0])
            op["attrs"][world.tkey] = tid2
    return op


def _gen_paint(world, rnd, bad=False) -> dict:
    tr = world.tracks
    seg = tr.segmentation
    t = rnd.randint(0, world.frames - 1)
    in_frame = [n for n in world.nodes() if world.time(n) == t]
    r = rnd.random()
    # stroke geometry: bbox (or part) of an existing node, or a random box
    if in_frame and r < 0.55:
        n = _pick(rnd, in_frame)
        idx = np.nonzero(seg[t] == n)
        if len(idx[0]):
            lo = [int(a.min()) for a in idx]
            hi = [int(a.max()) + 1 for a in idx]
            if rnd.random() < 0.5:  # part of it
                ax = rnd.randint(0, len(lo) - 1)
                if hi[ax] - lo[ax] > 1:
                    mid = rnd.randint(lo[ax] + 1, hi[ax] - 1)
                    if rnd.random() < 0.5:
                        lo[ax] = mid
                    else:
                        hi[ax] = mid
            if rnd.random() < 0.4:  # grow by one
                lo = [max(0, a - rnd.randint(0, 1)) for a in lo]
                hi = [min(s, b + rnd.randint(0, 1)) for b, s in zip(hi, world.shape)]
            boxes = [[lo, hi]]
        else:
            boxes = [_rand_box(rnd, world.shape, maxlen=4)]
    else:
        boxes = [_rand_box(rnd, world.shape, maxlen=4, minlen=2 if world.ndim == 4 else 1)]
        if rnd.random() < 0.25:
            boxes.append(_rand_box(rnd, world.shape, maxlen=3))
    m = box_mask(world.shape, boxes)
    if rnd.random() < 0.06 and (seg[t] == 0).any():
        m = seg[t] == 0  # flood-fill: paint all the background of the frame (no 0 left in it)
    stray_here = [lab for lab, ts in world.stray_now().items() if ts == t]
    over_stray = bool(stray_here) and rnd.random() < 0.25
    for lab in stray_here:
        # strokes mostly leave unselected detections alone: the action is only defined on node
        # labels - a stroke over one is refused (and must then change nothing)
        if not over_stray:
            m = m & (seg[t] != lab)
    if not m.any():
        m = seg[t] == 0
        if not m.any():
            return {"op": "undo"}
    idx = np.nonzero(m)
    r = rnd.random()
    if stray_here and rnd.random() < 0.3:
        value = _pick(rnd, stray_here)  # the user picks the label of an unselected detection
    elif r < 0.25 and not (m == (seg[t] == 0)).all():
        value = 0
    elif r < 0.6 and in_frame:
        value = _pick(rnd, in_frame)
    else:
        value = _unused_node_id(world, rnd)
        top = int(np.iinfo(seg.dtype).max)
        if value > top:
            # a label layer cannot hold (so a GUI cannot paint) a value beyond its dtype
            used = set(world.nodes()) | set(world.stray_now())
            free = [i for i in range(top, max(top - 400, 0), -1) if i not in used]
            value = _pick(rnd, free[:20]) if free else 0
    op = {"op": "paint", "time": t, "pixels": [a.tolist() for a in idx], "value": int(value),
          "track_id": _gen_track_id(world, rnd), "force": rnd.random() < 0.45,
          "order": rnd.choice(["asc", "desc"])}
    if rnd.random() < 0.06:
        # degenerate stroke: nothing changes (eraser over background, or an existing label
        # over its own pixels), but the caller reports it anyway
        bg = seg[t] == 0
        if value == 0 and bg.any():
            idx = np.nonzero(bg)
            k = rnd.randint(1, min(4, len(idx[0])))
            op["pixels"] = [a[:k].tolist() for a in idx]
            op["report_unchanged"] = True
        elif value in in_frame:
            idx = np.nonzero(seg[t] == value)
            op["pixels"] = [a[:2].tolist() for a in idx]
            op["report_unchanged"] = True
    if value == 0 and world.frames > 1 and rnd.random() < 0.2 and not op.get("report_unchanged"):
        # an eraser stroke across two time points (a brush spanning the time axis of a 2D+t
        # layer): valid - every group is reported per (old label, time point)
        t2 = (t + 1 + rnd.randint(0, world.frames - 2)) % world.frames
        in2 = [n for n in world.nodes() if world.time(n) == t2]
        if in2:
            n2 = _pick(rnd, in2)
            idx2 = np.nonzero(seg[t2] == n2)
            if len(idx2[0]) == 0:
                return op
            k2 = rnd.randint(1, len(idx2[0]))  # part of it, or all
            m2 = np.zeros(world.shape, dtype=bool)
            m2[tuple(a[:k2] for a in idx2)] = True
            op["second_frame"] = {"time": t2, "pixels": [a.tolist() for a in np.nonzero(m2)],
                                  "first": rnd.random() < 0.5}
        return op
    if bad and value != 0 and world.frames > 1 and rnd.random() < 0.6 and not op.get("report_unchanged"):
        # invalid argument: one update whose pixels span two time points
        t2 = (t + 1 + rnd.randint(0, world.frames - 2)) % world.frames
        if value not in world.nodes() and value not in world.stray_now():
            # a fresh label only (an existing label - node or unselected detection - belongs to one frame)
            m2 = box_mask(world.shape, [_rand_box(rnd, world.shape, maxlen=3, minlen=2 if world.ndim == 4 else 1)])
            for lab, ts in world.stray_now().items():
                if ts == t2:
                    m2 = m2 & (seg[t2] != lab)  # strokes leave unselected detections alone
            if not m2.any():
                return op
            op["second_frame"] = {"time": t2, "pixels": [a.tolist() for a in np.nonzero(m2)],
                                  "first": rnd.random() < 0.5}
    return op


def _gen_toggle(world, rnd, kind, bad) -> dict:
    tr = world.tracks
    avail = sorted(tr.annotators.all_features.keys())
    core = {world.tkey, world.lkey}
    pk = world.pos_key
    if isinstance(pk, str):
        core.add(pk)
    core.add("area")
    # core id / position features are only toggled at registry level (C10 finish): user
    # actions are not defined on a solution without track ids
    pool = [k for k in avail if k not in core]
    iso = tr.scale is None or len(set(tr.scale[1:])) == 1
    if world.ndim == 3 and not iso:
        # skimage: 2D perimeter (hence circularity) supports isotropic spacing only
        pool = [k for k in pool if k not in ("perimeter", "circularity")]
    k = rnd.randint(1, max(1, min(3, len(pool))))
    keys = sorted({_pick(rnd, pool) for _ in range(k)}) if pool else []
    if bad:
        keys = keys + ["no_such_feature"]
        if rnd.random() < 0.5:
            keys.reverse()
    return {"op": kind, "keys": keys}


# ----------------------------------------------------------------------------------------
def structural_tags(world: World, op: dict) -> tuple:
    """Local topology signature of the nodes an op names (pre-state)."""
    g = world.tracks.graph
    named = named_nodes(world, op)
    tags = set()
    for n in named:
        if n not in g:
            tags.add("unknown")
            continue
        ind, outd = g.in_degree(n), g.out_degree(n)
        if ind == 0:
            tags.add("root")
        if outd == 0:
            tags.add("leaf")
        if outd == 2:
            tags.add("dividing")
        for p in g.predecessors(n):
            if g.out_degree(p) == 2:
                tags.add("after_division")
            if world.time(n) - world.time(p) > 1:
                tags.add("skip_in")
        for c in g.successors(n):
            if world.time(c) - world.time(n) > 1:
                tags.add("skip_out")
    return tuple(sorted(tags))


def named_nodes(world: World, op: dict) -> list[int]:
    kind = op["op"]
    if kind in ("add_node", "delete_node", "attrs"):
        return [op["node"]]
    if kind in ("add_edge", "delete_edge"):
        return list(op["edge"])
    if kind == "swap":
        return list(op["nodes"])
    if kind == "paint":
        seg = world.tracks.segmentation
        t = op["time"]
        sp = tuple(np.asarray(a, dtype=np.int64) for a in op["pixels"])
        vals = {int(v) for v in np.unique(seg[t][sp]).tolist()} - {0}
        sf = op.get("second_frame")
        if sf is not None:
            sp2 = tuple(np.asarray(a, dtype=np.int64) for a in sf["pixels"])
            vals |= {int(v) for v in np.unique(seg[int(sf["time"])][sp2]).tolist()} - {0}
        if op["value"]:
            vals.add(int(op["value"]))
        return sorted(vals)
    if "node" in op:
        return [op["node"]]
    if "edge" in op:
        return list(op["edge"])
    return []


def masks_defined(world: World, op: dict) -> bool:
    """Domain rule (DESIGN 6): in 3D the shape features (marching-cubes surface, inertia
    axes) are undefined for degenerate masks - skimage / math raise for the bulk and the
    incremental path alike. Ops whose resulting masks would be degenerate are not offered."""
    if world.ndim != 4 or world.tracks.segmentation is None:
        return True
    seg = world.tracks.segmentation
    sp = world.spacing()
    if op["op"] == "add_node":
        if op.get("pixels") is None or op.get("bad_pixels"):
            return True
        m = np.zeros(world.shape, dtype=bool)
        m[tuple(np.asarray(a, dtype=np.int64) for a in op["pixels"][1:])] = True
        return refs.shape3d_defined(m, sp)
    if op["op"] == "paint":
        t = op["time"]
        stroke = np.zeros(world.shape, dtype=bool)
        stroke[tuple(np.asarray(a, dtype=np.int64) for a in op["pixels"])] = True
        frame = seg[t]
        v = int(op["value"])
        for lab in {int(x) for x in np.unique(frame[stroke]).tolist()} - {0, v}:
            rest = (frame == lab) & ~stroke
            if rest.any() and not refs.shape3d_defined(rest, sp):
                return False
        sf = op.get("second_frame")
        if sf is not None:
            # the sub-edits of the second frame run before the refusal: their remainders count too
            stroke2 = np.zeros(world.shape, dtype=bool)
            stroke2[tuple(np.asarray(a, dtype=np.int64) for a in sf["pixels"])] = True
            frame2 = seg[int(sf["time"])]
            for lab in {int(x) for x in np.unique(frame2[stroke2]).tolist()} - {0, v}:
                rest = (frame2 == lab) & ~stroke2
                if rest.any() and not refs.shape3d_defined(rest, sp):
                    return False
        if v != 0:
            new = (frame == v) | stroke
            return refs.shape3d_defined(new, sp)
    return True


def _plan_toggle_episode(world: World, rnd) -> None:
    """disable k -> change a mask -> delete that node / one of its edges -> enable k -> undo (x1-2):
    values saved inside action objects must not resurface after the feature was recomputed."""
    tr = world.tracks
    core = {world.tkey, world.lkey, "area"} | ({world.pos_key} if isinstance(world.pos_key, str) else set())
    iso = tr.scale is None or len(set(tr.scale[1:])) == 1
    opt = [k for k in sorted(tr.annotators.all_features) if k not in core]
    if world.ndim == 3 and not iso:
        opt = [k for k in opt if k not in ("perimeter", "circularity")]
    if not opt:
        world.plan = []
        return
    k = _pick(rnd, opt)
    state = {}

    def s_enable_first(w, r):
        return {"op": "enable", "keys": [k]} if k not in w.tracks.annotators.features else None

    def s_disable(w, r):
        return {"op": "disable", "keys": [k]}

    def s_paint(w, r):
        for _ in range(6):
            op = _gen_paint(w, r)
            if masks_defined(w, op) and not op.get("second_frame") and not op.get("report_unchanged"):
                touched = [n for n in named_nodes(w, op) if n in w.tracks.graph]
                if touched:
                    state["node"] = touched[0]
                    return op
        return None

    def s_delete(w, r):
        n = state.get("node")
        g = w.tracks.graph
        if n is None or n not in g:
            return None
        inc = list(g.in_edges(n)) + list(g.out_edges(n))
        if inc and r.random() < 0.5:
            e = inc[r.randint(0, len(inc) - 1)]
            return {"op": "delete_edge", "edge": [int(e[0]), int(e[1])]}
        return {"op": "delete_node", "node": int(n)}

    def s_enable(w, r):
        return {"op": "enable", "keys": [k]}

    def s_undo(w, r):
        return {"op": "undo"}

    world.plan = [s_enable_first, s_disable, s_paint]
    if rnd.random() < 0.8:
        world.plan.append(s_delete)
    world.plan += [s_enable, s_undo]
    if rnd.random() < 0.5:
        world.plan.append(s_undo)


def _busy_slot(world: World, rnd):
    """(time, track id) in the gap of a skip edge of one track, or just before a division
    daughter on the daughter's track."""
    g = world.tracks.graph
    cands = []
    for u, v in g.edges:
        tu, tv = world.time(u), world.time(v)
        if tv - tu > 1 and g.nodes[u].get(world.tkey) == g.nodes[v].get(world.tkey):
            cands.append((rnd.randint(tu + 1, tv - 1), int(g.nodes[u][world.tkey])))
        if g.out_degree(u) == 2 and tv - 1 > tu:
            cands.append((tv - 1, int(g.nodes[v][world.tkey])))
    return _pick(rnd, cands) if cands else None


def _gen_ctrl_add_nodes(world: World, rnd):
    """2-3 new nodes in distinct frames, listed in random (not time) order, on background."""
    tr = world.tracks
    if tr.segmentation is None or world.frames < 2:
        return None
    k = rnd.randint(2, min(3, world.frames))
    frames = list(range(world.frames))
    rnd.shuffle(frames)
    frames = frames[:k]
    top = max(world.nodes() + list(world.stray_now()) + [0])  # labels are unique across time
    if top + k > int(np.iinfo(tr.segmentation.dtype).max):
        return None
    nxt = int(tr.get_next_track_id())
    ids, tids, pix = [], [], []
    for i, t in enumerate(frames):
        m = _background_box(world, rnd, t)
        if m is None:
            return None
        idx = np.nonzero(m)
        px = [np.full(len(idx[0]), t).tolist(), *[a.tolist() for a in idx]]
        if not masks_defined(world, {"op": "add_node", "pixels": px}):
            return None
        ids.append(top + 1 + i)
        tids.append(nxt + i)
        pix.append(px)
    attrs = {world.time_key: frames, world.tkey: tids, "node_id": ids, CUSTOM_REQ: [1] * k}
    return {"op": "ctrl_add_nodes", "attrs": attrs, "pixels": pix}
