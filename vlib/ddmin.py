"""Delta debugging over a list (of concrete ops, rows, columns ...).

``test(sub)`` returns True when ``sub`` still fails in the same bucket. The number of
test calls is bounded (``budget``), so minimisation is bounded by case count, not time.
"""

from __future__ import annotations


def ddmin(items: list, test, budget: int = 400) -> list:
    calls = 0

    def t(sub):
        nonlocal calls
        calls += 1
        return test(sub)

    n = 2
    items = list(items)
    while len(items) >= 2 and calls < budget:
        chunk = max(1, len(items) // n)
        subsets = [items[i : i + chunk] for i in range(0, len(items), chunk)]
        reduced = False
        # try complements first (removing one chunk)
        for i in range(len(subsets)):
            if calls >= budget:
                break
            comp = [x for j, s in enumerate(subsets) if j != i for x in s]
            if comp and t(comp):
                items = comp
                n = max(n - 1, 2)
                reduced = True
                break
        if not reduced:
            if chunk == 1:
                break
            n = min(len(items), n * 2)
    # final single-element removal pass
    i = 0
    while i < len(items) and len(items) > 1 and calls < budget:
        comp = items[:i] + items[i + 1 :]
        if t(comp):
            items = comp
        else:
            i += 1
    return items
