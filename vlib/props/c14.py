"""C14 - export followed by import is the identity."""
from ..oracles import C14Oracle
from ._machine_prop import make

ID = "C14"
RULE = (
    "Editing sessions (walks over all configurations incl. per-axis position, 2D/3D, +-"
    "segmentation) during and after which the current tracks are round-tripped: CSV "
    "(export_to_csv -> read_csv -> tracks_from_df with the explicit map time:t, pos:[z]yx, id, "
    "parent_id, track_id; with the segmentation when positions lie on their labels; and the "
    "display-name CSV with the map built from the registry's display / value names), GEFF "
    "(export_to_geff -> import_from_geff with explicit map incl. track/lineage ids and the custom "
    "feature, exported segmentation, same scale, loaded area/shape features), internal "
    "(save_tracks -> load_tracks). Oracle: same nodes, edges, times, positions (atol 1e-9), track "
    "ids, (GEFF) lineage ids, custom and loaded feature values, edge features, segmentation; "
    "internal: identical canonical state, scale, registry and lookups. Any exception is a "
    "violation. Non-trivial = graph with >=1 edge after >=1 edit, or with a division / skip edge / "
    "isolated node / non-contiguous ids; distinct by (format, seg, ndim, position mode, scale, "
    "shape descriptor, edits)."
)
ASSUMPTIONS = ["CSV/GEFF import with segmentation only when every node's truncated scaled position lies on its own label "
               "(the importer's documented validation); the rest is round-tripped without segmentation (excluded counter)",
               "empty tracks are not exported"]
REQUIRED_CLASSES = {t: ["roundtrip:csv", "roundtrip:csvdisplay", "roundtrip:geff", "roundtrip:internal", "roundtrip_after_edits",
                        "cfg:per_axis_pos", "cfg:3D"] for t in ("quick", "thorough")}
run_shard, replay, minimise = make(C14Oracle, quick=(320, 12), thorough=(2400, 25), profile="general",
                                   cfg_kwargs={"allow_stray": True})
