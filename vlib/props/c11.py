"""C11 - a refused edit changes nothing."""
from ..oracles import C11Oracle
from ._machine_prop import make

ID = "C11"
RULE = (
    "Refusal-biased walks (25% deliberately invalid arguments on top of naturally conflicting "
    "offers: missing time/track id/position, existing node id, merge / third child / upstream / "
    "downstream division without force, forced edits that still fail, unknown node or edge, wrong "
    "tuple length, protected attribute, strokes whose add-node step is refused after other "
    "sub-edits). Around every user action that raises (any exception type): deep snapshot of "
    "graph incl. every stored attribute, segmentation (after the harness restored the painted "
    "pixels), scale, registry, lookups and history stacks before == after, and zero refresh "
    "emissions. Non-trivial = a refusal; distinct by (kind, exception type, refusal class, local "
    "topology, force)."
)
ASSUMPTIONS = ["max track/lineage id counters are not part of the compared state (not named by the property)"]
REQUIRED_CLASSES = {t: ["refusal:missing_argument", "refusal:existing_node", "refusal:conflict_without_force",
                        "refusal:unknown_node", "refusal:unknown_edge", "refusal:protected_attribute",
                        "refusal:invalid_swap", "refusal:missing_position"]
                    for t in ("quick", "thorough")}
run_shard, replay, minimise = make(C11Oracle, quick=(3200, 30), thorough=(6400, 50), profile="refusal",
                                   refusal_bias=0.25, cfg_kwargs={"allow_stray": True, "allow_default_feature": True})
