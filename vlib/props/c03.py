"""C03 - edits keep a solution a forward-in-time binary forest."""
from ..oracles import C03Oracle
from ._machine_prop import make

ID = "C03"
RULE = (
    "Walks as in C04 but add_edge offers every ordered node pair (both temporal orders, same "
    "frame, existing edges, unknown endpoints), add_node/paint offer existing/next/arbitrary "
    "track ids, force on and off. Oracle: after every step in-degree<=1, out-degree<=2, "
    "time(u)<time(v) for all edges; an offer that would create a merge / third child / "
    "non-forward edge / node below an upstream or above a downstream division must raise "
    "InvalidActionError without force; when accepted (forced) the removed edges must be a subset "
    "of the conflicting edges computed from the pre-state and the requested edge/node must exist. "
    "Non-trivial = such a conflicting offer; distinct by (kind, conflict tags, force, outcome, "
    "exception, local topology)."
)
ASSUMPTIONS = ["conflict set = in-edges of the target (add_edge); out-edges of the track predecessor and "
               "in-edges of the track successor (add_node/paint) plus edges of nodes a stroke erases entirely"]
REQUIRED_CLASSES = {t: ["offer:add_edge:merge:noforce", "offer:add_edge:merge:force",
                        "offer:add_edge:non_forward:noforce", "offer:add_edge:non_forward:force",
                        "offer:add_node:upstream_division:noforce", "offer:add_node:upstream_division:force"]
                    for t in ("quick", "thorough")}
run_shard, replay, minimise = make(C03Oracle, quick=(3200, 30), thorough=(6400, 50), profile="structure",
                                   refusal_bias=0.1, init_kwargs={"max_nodes": 10})
