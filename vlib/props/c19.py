"""C19 - label utilities: globally unique labels; relabelling by track."""

from __future__ import annotations

import networkx as nx
import numpy as np

from .. import pure, refs
from ..hyp import st
from ..pure import Part, ProbeResult

ID = "C19"
RULE = (
    "Hypothesis @given. Part 'unique': label arrays (t,y,x), (t,z,y,x) or with a leading "
    "hypothesis axis, frames possibly empty, label values drawn from a shared pool (so they "
    "repeat across frames) incl. large non-contiguous values; oracle: per frame out==0 <=> "
    "in==0, in->out label map is a bijection on the frame, label sets of different frames "
    "disjoint. Part 'bytrack': a label array plus a solution forest over a subset of its "
    "detections; oracle: output label constant on each reference tracklet (union-find over "
    "edges leaving a one-child node), distinct between tracklets, 0 on every pixel that is "
    "not a detection of the solution. Non-trivial/distinct: (unique) the pattern of "
    "empty/non-empty frames and repeated labels, with an empty frame followed by a non-empty "
    "one or a repeated label; (bytrack) forest shape signature with a division or an unused "
    "detection."
)
ASSUMPTIONS = [
    "labels are non-negative integers < 2**40 (sums stay inside uint64)",
    "solution graphs are forests (in-degree <= 1) whose nodes carry time and seg_id",
]
REQUIRED_CLASSES = {
    "quick": ["unique:empty_then_nonempty", "unique:multiseg", "unique:non_contiguous", "bytrack:division",
              "bytrack:unused_detection"],
    "thorough": ["unique:empty_then_nonempty", "unique:multiseg", "bytrack:division",
                 "bytrack:unused_detection"],
}

POOL = [1, 2, 3, 5, 7, 40, 255, 256, 65535, 70000, 2**31, 2**33 + 5, 2**40 - 1]


# ----------------------------------------------------------------------------------------
@st.composite
def unique_inputs(draw):
    multiseg = draw(st.booleans())
    spatial = draw(st.sampled_from([(2, 2), (2, 3), (3, 3), (2, 2, 2)]))
    nt = draw(st.integers(1, 5))
    nh = draw(st.integers(1, 3)) if multiseg else 1
    npx = int(np.prod(spatial))
    pool = draw(st.lists(st.sampled_from(POOL), min_size=1, max_size=4, unique=True))
    frames = []
    for _ in range(nh * nt):
        if draw(st.integers(0, 3)) == 0:
            frames.append([0] * npx)
        else:
            frames.append(
                draw(st.lists(st.integers(0, len(pool)), min_size=npx, max_size=npx))
            )
    # indices -> label values (0 = background)
    vals = [[0 if i == 0 else pool[i - 1] for i in f] for f in frames]
    dtype = draw(st.sampled_from(["uint64", "int64", "uint32"]))
    if dtype == "uint32":
        vals = [[v if v < 2**32 else v % 65521 + 1 for v in f] for f in vals]
    return {"multiseg": multiseg, "nh": nh, "nt": nt, "spatial": list(spatial),
            "frames": vals, "dtype": dtype, "layout": draw(st.sampled_from(["C", "C", "F", "moveaxis"]))}


def probe_unique(inp) -> ProbeResult:
    from funtracks.utils import ensure_unique_labels

    res = ProbeResult()
    spatial = tuple(inp["spatial"])
    arr = np.array(inp["frames"], dtype=inp["dtype"]).reshape((-1, *spatial))
    if inp["multiseg"]:
        full = arr.reshape((inp["nh"], inp["nt"], *spatial))
    else:
        full = arr.reshape((inp["nt"], *spatial))
    # memory layout is not part of the contract: views / Fortran order must behave the same
    layout = inp.get("layout", "C")
    if layout == "F":
        full = np.asfortranarray(full)
        res.tags.append("unique:non_contiguous")
    elif layout == "moveaxis" and inp["multiseg"]:
        full = np.moveaxis(np.ascontiguousarray(np.moveaxis(full, 0, 1)), 0, 1)  # (t,h,..) stack viewed as (h,t,..)
        res.tags.append("unique:non_contiguous")
    src = full.copy()
    try:
        out = ensure_unique_labels(full, multiseg=inp["multiseg"])
    except Exception as e:  # noqa: BLE001 - the utility has no documented refusal
        res.fail(f"exception:{type(e).__name__}", f"ensure_unique_labels raised {e!r}")
        return res
    out = np.asarray(out)
    if out.shape != src.shape:
        res.fail("shape", f"output shape {out.shape} != input shape {src.shape}")
        return res
    fin = src.reshape((-1, *spatial))
    fout = out.reshape((-1, *spatial))
    seen: dict[int, int] = {}
    empties = []
    for i in range(fin.shape[0]):
        a, b = fin[i], fout[i]
        empties.append(not a.any())
        if not np.array_equal(a == 0, b == 0):
            res.fail("background", f"frame {i}: background changed")
            continue
        fwd: dict[int, int] = {}
        bwd: dict[int, int] = {}
        for x, y in zip(a.ravel().tolist(), b.ravel().tolist()):
            if x == 0:
                continue
            if fwd.setdefault(x, y) != y:
                res.fail("split", f"frame {i}: input label {x} mapped to several labels")
            if bwd.setdefault(y, x) != x:
                res.fail("merged", f"frame {i}: output label {y} covers several regions")
        for y in bwd:
            if y in seen:
                res.fail("not_unique",
                         f"label {y} occurs in frames {seen[y]} and {i} of the output")
            seen[y] = i
    # classification
    rep = len({v for f in inp["frames"] for v in f if v}) < sum(
        len({v for v in f if v}) for f in inp["frames"]
    )
    e_then_n = any(
        empties[i] and not empties[j]
        for i in range(len(empties)) for j in range(i + 1, len(empties))
    )
    if e_then_n:
        res.tags.append("unique:empty_then_nonempty")
    if rep:
        res.tags.append("unique:repeated_label")
    if inp["multiseg"]:
        res.tags.append("unique:multiseg")
    if all(empties):
        res.tags.append("unique:all_empty")
    if e_then_n or rep:
        res.nontrivial = ("unique", inp["multiseg"], tuple(empties),
                          tuple(tuple(sorted({v for v in f if v})) for f in inp["frames"]))
    return res


# ----------------------------------------------------------------------------------------
@st.composite
def bytrack_inputs(draw):
    spatial = draw(st.sampled_from([(2, 3), (3, 3), (2, 2, 2)]))
    nt = draw(st.integers(1, 5))
    npx = int(np.prod(spatial))
    reuse = draw(st.booleans())  # seg ids reused across frames (allowed: lookup is per frame)
    frames = []
    dets = []  # (time, seg_id)
    nxt = 1
    for t in range(nt):
        k = draw(st.integers(0, 3))
        labels = []
        for j in range(k):
            labels.append(j + 1 if reuse else nxt)
            nxt += 1
        f = draw(st.lists(st.integers(0, k), min_size=npx, max_size=npx)) if k else [0] * npx
        vals = [0 if i == 0 else labels[i - 1] for i in f]
        frames.append(vals)
        for lab in labels:
            if lab in vals:
                dets.append((t, lab))
    # solution: subset of detections, forest with optional skip edges / divisions
    nodes = []
    edges = []
    nid = draw(st.integers(1, 50))
    children: dict[int, int] = {}
    for (t, lab) in dets:
        if draw(st.integers(0, 4)) == 0:
            continue  # detection not in the solution
        nid += draw(st.integers(1, 9))
        cands = [n for n in nodes if n[1] < t and children.get(n[0], 0) < 2]
        if cands and draw(st.integers(0, 3)) != 0:
            p = cands[draw(st.integers(0, len(cands) - 1))]
            edges.append([p[0], nid])
            children[p[0]] = children.get(p[0], 0) + 1
        nodes.append([nid, t, lab])
    # nodes may carry attributes left over from another solution (e.g. old track ids)
    stale = [draw(st.integers(1, 3)) for _ in nodes] if draw(st.booleans()) else None
    return {"spatial": list(spatial), "frames": frames, "nodes": nodes, "edges": edges, "stale_track_ids": stale,
            # how the attributes got onto the graph: Python ints, or numpy integers (from arrays / tables)
            "attr_repr": draw(st.sampled_from(["int", "int", "np.int64", "np.uint32", "np.uint64"])),
            "seg_dtype": draw(st.sampled_from(["uint32", "uint32", "int64", "uint16", "uint64"]))}


def probe_bytrack(inp) -> ProbeResult:
    from funtracks.utils import relabel_segmentation_with_track_id

    res = ProbeResult()
    spatial = tuple(inp["spatial"])
    seg = np.array(inp["frames"], dtype=inp.get("seg_dtype", "uint32")).reshape((-1, *spatial))
    rep = {"int": int, "np.int64": np.int64, "np.uint32": np.uint32, "np.uint64": np.uint64}[inp.get("attr_repr", "int")]
    if inp.get("attr_repr", "int") != "int":
        res.tags.append("bytrack:numpy_integer_attributes")
    g = nx.DiGraph()
    for i, (n, t, lab) in enumerate(inp["nodes"]):
        g.add_node(n, time=rep(t), seg_id=rep(lab))
        if inp.get("stale_track_ids"):
            g.nodes[n]["track_id"] = inp["stale_track_ids"][i]
            g.nodes[n]["tracklet_id"] = inp["stale_track_ids"][i]
    if inp.get("stale_track_ids") and inp["nodes"]:
        res.tags.append("bytrack:stale_id_attributes")
    g.add_edges_from([tuple(e) for e in inp["edges"]])
    src = seg.copy()
    try:
        out = relabel_segmentation_with_track_id(g, seg)
    except Exception as e:  # noqa: BLE001
        res.fail(f"exception:{type(e).__name__}", f"relabel_segmentation_with_track_id raised {e!r}")
        return res
    if not np.array_equal(seg, src):
        res.fail("input_modified", "the input segmentation was modified")
    classes = refs.tracklets([n[0] for n in inp["nodes"]], [tuple(e) for e in inp["edges"]])
    label_of: dict = {}
    covered = np.zeros(seg.shape, dtype=bool)
    for n, t, lab in inp["nodes"]:
        m = src[t] == lab
        covered[t] |= m
        vals = set(out[t][m].tolist())
        if len(vals) != 1 or 0 in vals:
            res.fail("node_not_uniform", f"node {n}: its pixels carry labels {sorted(vals)}")
            label_of[n] = None
        else:
            label_of[n] = vals.pop()
    if not res.failures:
        mm = refs.partition_mismatch(label_of, classes)
        if mm:
            res.fail("partition", mm)
    if out[~covered].any():
        res.fail("unused_not_removed", "pixels outside the solution's detections are non-zero")
    outdeg = {}
    for u, _ in inp["edges"]:
        outdeg[u] = outdeg.get(u, 0) + 1
    div = any(d >= 2 for d in outdeg.values())
    used = {(t, lab) for _, t, lab in inp["nodes"]}
    unused = any((t, v) not in used for t, f in enumerate(inp["frames"]) for v in set(f) if v)
    if div:
        res.tags.append("bytrack:division")
    if unused:
        res.tags.append("bytrack:unused_detection")
    if any(g.nodes[v]["time"] - g.nodes[u]["time"] > 1 for u, v in g.edges):
        res.tags.append("bytrack:skip_edge")
    if div or unused:
        shape = tuple(sorted((g.nodes[u]["time"], g.nodes[v]["time"], outdeg[u]) for u, v in g.edges))
        res.nontrivial = ("bytrack", shape, len(inp["nodes"]), unused)
    return res


PARTS = [
    Part("unique", unique_inputs(), probe_unique, quick=8000, thorough=80000),
    Part("bytrack", bytrack_inputs(), probe_bytrack, quick=5000, thorough=60000),
]


def run_shard(ctx):
    pure.run_shard(ctx, PARTS)


def replay(obj, col):
    pure.replay(PARTS, obj, col)


def minimise(bucket, failure):
    return pure.minimise(PARTS, bucket, failure)
