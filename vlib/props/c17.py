"""C17 - inferred column mappings lose no column and prefer exact names."""

from __future__ import annotations

import difflib

from .. import pure
from ..hyp import st
from ..pure import Part, ProbeResult

ID = "C17"
RULE = (
    "Hypothesis @given over lists of distinct column names built from a colliding grammar: the "
    "standard keys and seg_id verbatim, feature keys, display names and value names (Area, "
    "major_axis, z/y/x ...), each optionally case-changed, prefixed/suffixed or with a typo, plus "
    "arbitrary identifiers; required-key sets ['time'] and ['time','id','parent_id']; ndim 3, 4, "
    "None; node maps and edge maps. Oracle (validity predicate): the flattened values of the "
    "returned map equal the input columns as a multiset (every column exactly once, none invented, "
    "none assigned to two keys); every column spelled exactly like a required key or like seg_id "
    "is the value of that key. Non-trivial = >=2 columns whose lower-cased difflib ratio to each "
    "other or to the same standard/feature/display name is >= 0.4; distinct by the sorted column "
    "tuple with (required set, ndim)."
)
ASSUMPTIONS = ["column names are distinct non-empty strings (a DataFrame / GEFF property set)"]
REQUIRED_CLASSES = {t: ["c17:similar_columns", "c17:exact_required_present", "part:edge_map"]
                    for t in ("quick", "thorough")}

STANDARD = ["time", "id", "parent_id", "seg_id"]
FEATURE_KEYS = ["pos", "area", "ellipse_axis_radii", "circularity", "perimeter", "iou",
                "tracklet_id", "lineage_id", "track_id"]
DISPLAY = ["Area", "Volume", "Circularity", "Sphericity", "Perimeter", "Surface Area", "position",
           "Tracklet ID", "Lineage ID", "major_axis", "minor_axis", "semi_minor_axis", "Time", "IoU",
           "z", "y", "x", "t", "label", "parent", "ID", "Parent ID"]
BASES = STANDARD + FEATURE_KEYS + DISPLAY
IDENT = st.text(alphabet="abcdefghijklmnopqrstuvwxyzXYZ_0123456789 ", min_size=1, max_size=8)


@st.composite
def column_name(draw):
    if draw(st.integers(0, 9)) < 2:
        return draw(IDENT)
    base = draw(st.sampled_from(BASES))
    v = draw(st.integers(0, 9))
    if v <= 3:
        return base
    if v == 4:
        return base.upper()
    if v == 5:
        return base.lower() if base != base.lower() else base.title()
    if v == 6:
        return base + draw(st.sampled_from(["_1", "2", "s", " ", "_id", "_um"]))
    if v == 7:
        return draw(st.sampled_from(["my_", "cell_", "x", "_"])) + base
    if v == 8 and len(base) > 1:
        i = draw(st.integers(0, len(base) - 1))
        return base[:i] + base[i + 1:]
    if len(base) > 1:
        i = draw(st.integers(0, len(base) - 2))
        return base[:i] + base[i + 1] + base[i] + base[i + 2:]
    return base + base


@st.composite
def node_inputs(draw):
    cols = draw(st.lists(column_name(), min_size=0, max_size=12, unique=True))
    # (seg_id is always a standard field; naming it - or any key - twice asks for nothing more)
    required = draw(st.sampled_from([["time"], ["time", "id", "parent_id"], ["time", "id", "parent_id"],
                                     ["time", "seg_id"], ["time", "time"], ["time", "id", "parent_id", "seg_id"]]))
    ndim = draw(st.sampled_from([3, 4, None]))
    rows = draw(st.sampled_from([0, 0, 1, 3]))
    empty_cols = draw(st.lists(st.integers(0, 11), max_size=3, unique=True)) if rows else []
    return {"columns": cols, "required": required, "ndim": ndim, "rows": rows, "empty_cols": empty_cols}


@st.composite
def edge_inputs(draw):
    cols = draw(st.lists(column_name(), min_size=0, max_size=8, unique=True))
    ndim = draw(st.sampled_from([3, 4, None]))
    return {"columns": cols, "ndim": ndim}


def _flatten(mapping) -> list:
    out = []
    for v in mapping.values():
        if isinstance(v, (list, tuple)):
            out.extend(v)
        else:
            out.append(v)
    return out


def _similar(cols, names) -> bool:
    low = [c.lower() for c in cols]
    for i in range(len(low)):
        for j in range(i + 1, len(low)):
            if difflib.SequenceMatcher(None, low[i], low[j]).ratio() >= 0.4:
                return True
    for n in names:
        hits = sum(1 for c in low if difflib.SequenceMatcher(None, n.lower(), c).ratio() >= 0.4)
        if hits >= 2:
            return True
    return False


def _check(res: ProbeResult, cols, mapping, exact_keys):
    if not isinstance(mapping, dict):
        res.fail("not_a_dict", f"returned {type(mapping).__name__}")
        return
    flat = _flatten(mapping)
    lost = [c for c in cols if c not in flat]
    if lost:
        res.fail("column_lost", f"columns {cols}: {lost} do not occur in the inferred map {mapping}")
    dup = sorted({c for c in flat if flat.count(c) > 1}, key=repr)
    if dup:
        res.fail("column_used_twice", f"columns {cols}: {dup} assigned more than once in {mapping}")
    invented = [c for c in flat if c not in cols]
    if invented:
        res.fail("column_invented", f"columns {cols}: {invented} are not source columns ({mapping})")
    for k in exact_keys:
        if k in cols and mapping.get(k) != k:
            res.fail("exact_name_not_preferred",
                     f"columns {cols}: column {k!r} is spelled like key {k!r} but the map gives {mapping.get(k)!r}")


def probe_node(inp) -> ProbeResult:
    from funtracks.import_export._name_mapping import infer_node_name_map
    from funtracks.import_export._utils import get_default_key_to_feature_mapping

    res = ProbeResult()
    cols = list(inp["columns"])
    avail = get_default_key_to_feature_mapping(inp["ndim"], display_name=False)
    src = list(cols)
    try:
        mapping = infer_node_name_map(cols, list(inp["required"]), avail)
    except Exception as e:  # noqa: BLE001 - inference has no documented refusal
        res.fail(f"exception:{type(e).__name__}", f"infer_node_name_map({cols}) raised {e!r}")
        return res
    if cols != src:
        res.fail("input_modified", "the input column list was modified")
    exact = list(inp["required"]) + ["seg_id"]
    _check(res, src, mapping, exact)
    # the result belongs to the caller (builders edit it in place): editing it must not leak
    # into a later inference on the same inputs
    import copy

    first = copy.deepcopy(mapping)
    if isinstance(mapping, dict):
        for k in list(mapping)[:2]:
            mapping[k] = None
        mapping["__edited__"] = "x"
        try:
            again = infer_node_name_map(list(src), list(inp["required"]), avail)
        except Exception as e:  # noqa: BLE001
            res.fail(f"exception_second_call:{type(e).__name__}", f"second inference raised {e!r}")
            return res
        if again != first:
            res.fail("not_a_function_of_its_inputs",
                     f"columns {src}: a second inference after the caller edited the first result gives {again}, first was {first}")
    _probe_builder(res, inp, src)
    if any(k in src for k in exact):
        res.tags.append("c17:exact_required_present")
    if _similar(src, STANDARD + FEATURE_KEYS + DISPLAY):
        res.tags.append("c17:similar_columns")
        res.nontrivial = (tuple(sorted(src)), tuple(inp["required"]), inp["ndim"])
    return res


def _probe_builder(res, inp, src):
    """The same inference through the builder (header read from a table; the dimensionality
    already known, as after prepare(source, segmentation=...), or not)."""
    import pandas as pd

    from funtracks.import_export import CSVTracksBuilder

    sub = ProbeResult()
    try:
        b = CSVTracksBuilder()
        frame = pd.DataFrame(columns=list(src))
        if inp.get("rows"):
            # a table with rows; some columns hold no value at all (not filled in yet)
            frame = pd.DataFrame({c: ([float("nan")] * inp["rows"] if i in inp.get("empty_cols", []) else list(range(inp["rows"])))
                                  for i, c in enumerate(src)})
            res.tags.append("c17:builder_frame_with_rows")
        b.read_header(frame)
        if inp["ndim"] is not None:
            b.ndim = inp["ndim"]
            res.tags.append("c17:builder_ndim_known")
        mapping = b.infer_node_name_map()
    except Exception as e:  # noqa: BLE001
        res.fail(f"builder:exception:{type(e).__name__}", f"builder.infer_node_name_map() on {src} raised {e!r}")
        return
    _check(sub, src, mapping, ["time", "id", "parent_id", "seg_id"])
    for bkt, msg in sub.failures.items():
        res.fail("builder:" + bkt, f"builder (ndim {inp['ndim']}): " + msg)
    res.evaluations += 1


def probe_edge(inp) -> ProbeResult:
    from funtracks.import_export._name_mapping import infer_edge_name_map
    from funtracks.import_export._utils import get_default_key_to_feature_mapping

    res = ProbeResult()
    cols = list(inp["columns"])
    avail = get_default_key_to_feature_mapping(inp["ndim"], display_name=False)
    try:
        mapping = infer_edge_name_map(list(cols), avail)
    except Exception as e:  # noqa: BLE001
        res.fail(f"exception:{type(e).__name__}", f"infer_edge_name_map({cols}) raised {e!r}")
        return res
    _check(res, cols, mapping, [])
    if _similar(cols, ["iou", "IoU"]):
        res.nontrivial = ("edge", tuple(sorted(cols)), inp["ndim"])
    return res


PARTS = [
    Part("node_map", node_inputs(), probe_node, quick=20000, thorough=300000),
    Part("edge_map", edge_inputs(), probe_edge, quick=4000, thorough=60000),
]


def run_shard(ctx):
    pure.run_shard(ctx, PARTS)


def replay(obj, col):
    pure.replay(PARTS, obj, col)


def minimise(bucket, failure):
    return pure.minimise(PARTS, bucket, failure)
