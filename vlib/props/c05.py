"""C05 - lineage ids label exactly the connected components."""
from ..oracles import C05Oracle
from ._machine_prop import make

ID = "C05"
RULE = (
    "Same walks as C04. Oracle after construction and after every step: node -> lineage id is "
    "constant on every weakly connected component (union-find over all edges) and injective on "
    "components; frame clause as in C04 for lineage ids. Non-trivial = a step that changed the "
    "number of components or the lineage id of an existing node; distinct by (op kind, local "
    "topology tags, number of relabelled nodes, force, outcome)."
)
ASSUMPTIONS = ["<= 10 initial nodes, <= 6 frames, <= 50 steps per walk"]
REQUIRED_CLASSES = {t: ["construct:bare", "construct:ids", "lineage:relabel:add_edge",
                        "lineage:relabel:delete_edge", "lineage:relabel:delete_node"]
                    for t in ("quick", "thorough")}
run_shard, replay, minimise = make(C05Oracle, quick=(3200, 30), thorough=(6400, 50), profile="structure")
