"""C04 - track ids label exactly the maximal unbranched track segments."""
from ..oracles import C04Oracle
from ._machine_prop import make

ID = "C04"
RULE = (
    "Hypothesis-driven walks: random configuration (2D/3D, +-segmentation, scale, key names, "
    "construction route bare/ids/featuredict) and random forest (non-contiguous ids, skip edges, "
    "divisions), then up to N user actions / undo / redo drawn from the current state. Oracle "
    "after construction and after every step: node -> track id is constant on every reference "
    "segment (union-find: u~v iff u has exactly one child) and injective on segments; frame "
    "clause: nodes of pre-state components containing no named node and no node of the named "
    "track keep their id. evaluations = steps (+1 per construction). Non-trivial = a step that "
    "changed the track id of an existing node (or a constructed forest with edges); distinct by "
    "(op kind, local topology tags of the named nodes, number of relabelled nodes, force, outcome)."
)
ASSUMPTIONS = ["<= 10 initial nodes, <= 6 frames, <= 50 steps per walk",
               "paint strokes never use the id of a node living in another frame"]
REQUIRED_CLASSES = {t: ["construct:bare", "construct:ids", "tracklet:relabel:add_edge",
                        "tracklet:relabel:delete_edge", "tracklet:relabel:delete_node",
                        "tracklet:relabel:undo"] for t in ("quick", "thorough")}
run_shard, replay, minimise = make(C04Oracle, quick=(3200, 30), thorough=(6400, 50), profile="structure")
