"""C06 - track lookups and freshly issued ids always agree with the graph."""
from ..oracles import C06Oracle
from ._machine_prop import make

ID = "C06"
RULE = (
    "Walks as in C04 (incl. add_node with explicit non-contiguous track ids). After construction "
    "and every step: per-track and per-lineage lookups (non-empty entries, as sorted lists, so "
    "duplicates count) == scan of node attributes; get_next_track_id/get_next_lineage_id not in "
    "use; _get_new_node_ids(k) distinct and not in the graph; for every track id in use plus "
    "{next, 0, an unused one} and every t in [-1, T]: has_track_id_at_time and "
    "get_track_neighbors == scan. evaluations = steps + queries. Non-trivial = a neighbour query "
    "on a track whose membership changed in this step; distinct by (last 3 ops, track length, "
    "relative time, has-pred, has-succ)."
)
ASSUMPTIONS = ["order inside lookup lists is unconstrained (get_track_neighbors sorts the cache in place)"]
REQUIRED_CLASSES = {t: ["query_on_changed_track", "ids_recomputed", "construct_route:from_tracks_partial_ids"]
                    for t in ("quick", "thorough")}
run_shard, replay, minimise = make(C06Oracle, quick=(1600, 30), thorough=(4800, 50), profile="structure")
