"""C01 - every edit is exactly invertible (undo restores, redo re-applies)."""
from ..oracles import C01Oracle
from ._machine_prop import make

ID = "C01"
RULE = (
    "Walks over all configurations (2D/3D, +-segmentation, scale, single/per-axis position, key "
    "names, construction route, optional features). Every accepted user action is round-tripped, "
    "alternating two routes: tracks.undo() -> canonical state == pre, tracks.redo() -> == post; or "
    "action.inverse() -> == pre, .inverse() of that -> == post. Primitive actions (AddNode on "
    "background, DeleteNode without incident edges, AddEdge, DeleteEdge, UpdateNodeSeg add/remove, "
    "UpdateNodeAttrs, UpdateTrackIDs with a fresh id or one in use by an unrelated track - never one "
    "found downstream) are applied and inverted three "
    "times (pre, post, pre). Canonical state = nodes, edges, every registered node/edge feature and "
    "the special keys, segmentation array; ids/structure/custom values/labels exact, recomputed "
    "floats rtol 1e-9. Non-trivial = an edit that changed the state and touches a division / skip "
    "edge / root / leaf, removes extra edges by force, or paints; or a state-changing primitive. "
    "Distinct by (kind, topology tags, force, route, seg, ndim, node/edge delta)."
)
ASSUMPTIONS = ["None == absent for attribute values (as get_node_attr reports them)",
               "3D strokes/masks for which the shape reference is undefined are not generated (counted in excluded)"]
REQUIRED_CLASSES = {t: ["roundtrip:add_node:undo", "roundtrip:add_node:inverse", "roundtrip:delete_node:undo",
                        "roundtrip:add_edge:inverse", "roundtrip:delete_edge:undo", "roundtrip:swap:undo",
                        "roundtrip:paint:undo", "roundtrip:paint:inverse", "roundtrip:attrs:undo",
                        "prim:AddNode", "prim:DeleteNode", "prim:AddEdge", "prim:DeleteEdge",
                        "prim:UpdateNodeSeg", "prim:UpdateNodeAttrs", "prim:UpdateTrackIDs", "forced_removal",
                        "cfg:per_axis_pos", "cfg:3D"]
                    for t in ("quick", "thorough")}
run_shard, replay, minimise = make(C01Oracle, quick=(3200, 30), thorough=(6400, 50), profile="general",
                                   cfg_kwargs={"allow_stray": True, "allow_default_feature": True})
