"""C12 - import reproduces the source table or graph faithfully."""

from __future__ import annotations

import shutil
import tempfile
import warnings
from pathlib import Path

import networkx as nx
import numpy as np

from .. import pure, refs
from ..hyp import st
from ..pure import Part, ProbeResult

ID = "C12"
RULE = (
    "Hypothesis @given: a source model (forest with divisions/skip edges, times, 2D/3D positions, "
    "custom int/float/str/list columns, a unique uid per node) rendered (a) to a DataFrame with "
    "arbitrary distinct column names, shuffled rows, non-default index labels, roots encoded as -1 / NaN / empty, ids int "
    "contiguous / non-contiguous / 0-based / string / float, position columns mapped in any order; "
    "(b) to a GEFF store written with geff.write under renamed property names with edge "
    "properties. Imported with the matching explicit key mapping. Oracle: node set == source ids "
    "(non-integer ids: imported ids are 1..n and the uid bijection preserves every parent link); "
    "edge set == source links; time, position (in mapped column order) and every mapped property "
    "equal per node. Malformed variants (one mutation of a well-formed source: duplicate id, parent "
    "to an unknown node, self-link, required column removed, required key unmapped or mapped to a "
    "missing column) must raise ValueError. Non-trivial = source with >=1 edge and (renamed columns "
    "or non-contiguous/string/float ids or custom columns or 3D) or a malformed variant; distinct "
    "by (part, id kind, root encoding, shape signature, mutation)."
)
ASSUMPTIONS = ["explicit key mappings (the inferred map is C17's subject)", "pandas/geff/zarr trusted as transport",
               "a *position* column is never spelled like another key of the map (multi-column sources keep their own names next to the standard keys); single-valued columns may be (e.g. a custom column called 'time' while time is read from 't')",
               "a list-valued custom cell may be imported as the source string or as the parsed list"]
REQUIRED_CLASSES = {t: ["c12:ids=str", "c12:ids=noncontig", "c12:ids=float", "c12:renamed", "c12:3D",
                        "c12:malformed:duplicate_id", "c12:malformed:unknown_parent", "c12:malformed:self_link",
                        "c12:malformed:missing_column", "c12:malformed:unmapped_key", "part:geff",
                        "c12:crossed_single_value_names", "c12:non_default_index", "c12:geff_sparse_properties", "c12:geff_composite_custom",
                        "c12:mixed_int_float_position_columns", "c12:via_csv_file", "c12:legacy_axis_keys", "c12:features_arg", "c12:geff_malformed:duplicate_id",
                        "c12:geff_malformed:unknown_parent", "c12:geff_malformed:self_link"]
                    for t in ("quick", "thorough")}

# Aliases per key: a source column is never spelled like a *different* standard key (a
# precondition every real table respects; the importer keeps multi-column sources under
# their own names next to the standard keys).
ALIASES = {
    "time": ["time", "t", "frame", "T", "Time"],
    "id": ["id", "ID", "cid", "node", "cell"],
    "parent_id": ["parent_id", "parent", "par", "mother", "Parent ID"],
    "uid": ["uid", "label", "name2"],
    "ci": ["ci", "score", "a"],
    "cf": ["cf", "val", "b"],
    "cs": ["cs", "name", "c"],
    "cl": ["cl", "lst"],
    "track_id": ["track_id", "tid", "TrackID"],
    "lineage_id": ["lineage_id", "lin", "LineageID"],
    "z": ["z", "pz", "depth", "Z"],
    "y": ["y", "py", "row", "Y"],
    "x": ["x", "px", "col", "X"],
}


@st.composite
def sources(draw, geff=False):
    n = draw(st.integers(1, 9)) if draw(st.integers(0, 5)) else draw(st.integers(10, 24))
    nsp = draw(st.sampled_from([2, 2, 3]))
    idkind = draw(st.sampled_from(["contig", "noncontig", "zero", "str", "float"])) if not geff else \
        draw(st.sampled_from(["contig", "noncontig", "zero"]))
    if idkind == "contig":
        ids = list(range(1, n + 1))
    elif idkind == "zero":
        ids = list(range(0, n))
    elif idkind == "noncontig":
        # dense or sparse ranges (keys built from ids and the number of ids collide in dense
        # ones), listed in increasing order or in no order relative to time
        top = draw(st.sampled_from([2 * n + 2, 4 * n, 60 + n, 500, 500, 10**6]))
        ids = draw(st.lists(st.integers(1, top), min_size=n, max_size=n, unique=True))
        if draw(st.booleans()):
            ids = sorted(ids)
    elif idkind == "float":
        ids = [float(i) + 0.5 * draw(st.integers(0, 1)) for i in range(1, n + 1)]
    else:
        ids = [f"c{draw(st.integers(0, 999))}_{i}" for i in range(n)]
    times = sorted(draw(st.integers(0, 5)) for _ in range(n))
    nodes = []
    kids = {}
    for i, (nid, t) in enumerate(zip(ids, times)):
        parent = None
        cands = [m for m in nodes if m["t"] < t and kids.get(m["uid"], 0) < 2]
        if cands and draw(st.integers(0, 3)) != 0:
            p = cands[draw(st.integers(0, len(cands) - 1))]
            kids[p["uid"]] = kids.get(p["uid"], 0) + 1
            parent = p["uid"]
        nodes.append({"uid": i, "id": nid, "t": t, "parent": parent,
                      "pos": [draw(st.integers(0, 400)) / 4.0 for _ in range(nsp)],
                      "ci": draw(st.integers(-5, 50)), "cf": draw(st.integers(0, 1000)) / 8.0,
                      "cs": draw(st.sampled_from(["a", "bb", "x y", "Z"])),
                      "ew": draw(st.integers(1, 9)) / 2.0})
    # some axes hold integers (a z plane index next to sub-pixel y/x): their columns are int-typed
    int_axes = [i for i in range(nsp) if draw(st.integers(0, 3)) == 0]
    for m in nodes:
        for i in int_axes:
            m["pos"][i] = int(m["pos"][i])
    renamed = draw(st.booleans())
    axes = ["z", "y", "x"][-nsp:]
    keys = ["time", "id", "parent_id", "uid", "ci", "cf", "cs", "cl", "track_id", "lineage_id", *axes]
    if not renamed:
        cols = {k: k for k in keys}
    else:
        cols = {k: draw(st.sampled_from(ALIASES[k])) for k in keys}
    pos_order = draw(st.permutations(list(range(nsp))))
    customs = [k for k in ("ci", "cf", "cs", "cl") if draw(st.booleans())]
    crossed = False
    if renamed and draw(st.integers(0, 3)) == 0:
        # a single-valued custom column spelled like a standard key, while that key is read
        # from another column ({"time": "t", "uid": "time"}); position columns never cross
        k = draw(st.sampled_from(["time", "id", "parent_id"]))
        c = draw(st.sampled_from(["uid"] + [x for x in customs if x != "cl"]))
        if cols[k] == k:
            cols[k] = ALIASES[k][1]
        cols[c] = k
        crossed = len(set(cols.values())) == len(cols)
    return {"nodes": nodes, "nsp": nsp, "idkind": idkind, "cols": cols, "renamed": renamed, "crossed": crossed,
            "int_axes": int_axes,
            "pos_order": list(pos_order), "customs": customs,
            "root": draw(st.sampled_from(["minus1", "nan", "empty"])),
            "shuffle": draw(st.integers(0, 8)), "index_mode": draw(st.sampled_from([0, 0, 1, 2, 3, 4])),
            "via_file": draw(st.integers(0, 3)) == 0, "legacy_pos": draw(st.integers(0, 4)) == 0,
            "features_arg": draw(st.integers(0, 3)) == 0,
            "sparse": draw(st.booleans()), "pair": draw(st.booleans()),
            "mutation": draw(st.sampled_from([None, None, None, "duplicate_id", "duplicate_row", "unknown_parent", "self_link",
                                              "missing_column", "unmapped_key", "mapped_to_missing"])),
            "mpick": draw(st.integers(0, 100)),
            # valid track / lineage ids already in the source (arbitrary distinct values), mapped
            "idcols": draw(st.sampled_from([None, None, None, "both", "track", "lineage"])) if not geff else None,
            # dtype of an integer id column (labels of a uint16 / uint64 image, pandas nullable ints)
            "id_dtype": draw(st.sampled_from([None, None, None, "uint16", "uint64", "int32", "Int64", "UInt32"])),
            "id_base": draw(st.sampled_from([0, 1, 5, 300])), "id_perm": draw(st.integers(0, 10**6))}


# ----------------------------------------------------------------------------------------
def _source_track_ids(inp):
    """Valid ids for the source model: one arbitrary distinct value per reference tracklet /
    lineage (uid -> id), in no particular order."""
    import random

    uids = [m["uid"] for m in inp["nodes"]]
    edges = [(m["parent"], m["uid"]) for m in inp["nodes"] if m["parent"] is not None]
    rnd = random.Random(int(inp.get("id_perm", 0)))
    out = []
    for classes, step in ((refs.tracklets(uids, edges), 2), (refs.lineages(uids, edges), 3)):
        classes = sorted(classes, key=min)
        ranks = list(range(len(classes)))
        rnd.shuffle(ranks)
        out.append({u: int(inp.get("id_base", 1)) + step * r for r, c in zip(ranks, classes) for u in c})
    return out


def _frame(inp):
    import pandas as pd

    cols = inp["cols"]
    axes = ["z", "y", "x"][-inp["nsp"]:]
    by_uid = {m["uid"]: m for m in inp["nodes"]}
    strids = inp["idkind"] == "str"
    rows = []
    src_ids = _source_track_ids(inp)
    for m in inp["nodes"]:
        if m["parent"] is None:
            par = {"minus1": -1, "nan": float("nan"), "empty": None}[inp["root"]]
            if strids and inp["root"] == "minus1":
                par = None
        else:
            par = by_uid[m["parent"]]["id"]
        row = {cols["time"]: m["t"], cols["id"]: m["id"], cols["parent_id"]: par, cols["uid"]: 1000 + m["uid"]}
        for a, v in zip(axes, m["pos"]):
            row[cols[a]] = v
        row[cols["ci"]] = m["ci"]
        row[cols["cf"]] = m["cf"]
        row[cols["cs"]] = m["cs"]
        row[cols["cl"]] = str([m["ci"], m["uid"]])
        if inp.get("idcols") in ("both", "track"):
            row[cols["track_id"]] = src_ids[0][m["uid"]]
        if inp.get("idcols") in ("both", "lineage"):
            row[cols["lineage_id"]] = src_ids[1][m["uid"]]
        rows.append(row)
    k = inp["shuffle"] % len(rows)
    rows = rows[k:] + rows[:k]
    if inp["shuffle"] % 2:
        rows.reverse()
    df = pd.DataFrame(rows)
    if inp.get("id_dtype") and inp["idkind"] in ("contig", "noncontig", "zero"):
        ids_ = [m["id"] for m in inp["nodes"]]
        if max(ids_) <= 65535 or inp["id_dtype"] != "uint16":
            df[cols["id"]] = df[cols["id"]].astype(inp["id_dtype"])
    # a source frame is often the result of sorting / filtering: its index need not be 0..n-1
    imode = inp.get("index_mode", 0)
    if imode == 1:
        df = df.iloc[::-1]
    elif imode == 2:
        df.index = [7 + 3 * i for i in range(len(df))]
    elif imode == 3:
        df = df.iloc[[(i * 2 + 1) % len(df) if len(df) % 2 else i for i in range(len(df))]] if len(df) > 1 else df
        df = df.iloc[::-1]
    elif imode == 4:
        df.index = [f"r{i}" for i in range(len(df))]
    nm = {"time": cols["time"], "id": cols["id"], "parent_id": cols["parent_id"],
          "pos": [cols[axes[i]] for i in inp["pos_order"]], "uid": cols["uid"]}
    for k2 in inp["customs"]:
        nm[k2] = cols[k2]
    if inp.get("idcols") in ("both", "track"):
        nm["track_id"] = cols["track_id"]
    if inp.get("idcols") in ("both", "lineage"):
        nm["lineage_id"] = cols["lineage_id"]
    if inp.get("legacy_pos"):
        # legacy form of the mapping: one key per axis instead of the composite "pos"
        # (the keys are written in the drawn order: a mapping is a dict, its order is arbitrary)
        nm.pop("pos")
        for i in inp["pos_order"]:
            nm[axes[i]] = cols[axes[i]]
        if inp["pos_order"][0] != 0 and inp.get("shuffle", 0) % 3 == 0:
            nm = {k: nm[k] for k in [*[axes[i] for i in inp["pos_order"]], *[k for k in nm if k not in axes]]}
    return df, nm, axes


def _mutate(inp, df, nm):
    """One malformation; returns (df, nm, tag) or None when it does not apply."""
    import pandas as pd

    mut = inp["mutation"]
    cols = inp["cols"]
    idc, pc = cols["id"], cols["parent_id"]
    pick = inp["mpick"]
    if mut == "duplicate_id":
        if len(df) < 2:
            return None
        df = df.copy()
        i, j = pick % len(df), (pick + 1) % len(df)
        df.loc[df.index[j], idc] = df.loc[df.index[i], idc]
        return df, nm, mut
    if mut == "duplicate_row":
        # a row repeated verbatim (tables concatenated from overlapping exports): the id occurs twice
        i = pick % len(df)
        df = pd.concat([df, df.iloc[[i]]], ignore_index=(pick % 2 == 0))
        return df, nm, "duplicate_id"
    if mut == "unknown_parent":
        df = df.copy()
        ids = df[idc].tolist()
        unknown = "nope" if isinstance(ids[0], str) else (max(ids) + 7)
        df[pc] = df[pc].astype(object)
        df.loc[df.index[pick % len(df)], pc] = unknown
        return df, nm, mut
    if mut == "self_link":
        df = df.copy()
        i = df.index[pick % len(df)]
        df[pc] = df[pc].astype(object)
        df.loc[i, pc] = df.loc[i, idc]
        return df, nm, mut
    if mut == "missing_column":
        key = ["time", "id", "parent_id"][pick % 3]
        return df.drop(columns=[nm[key]]), nm, mut
    if mut == "unmapped_key":
        key = ["time", "id", "parent_id", "pos"][pick % 4]
        if key == "pos" and "pos" not in nm:  # legacy per-axis form: unmap every axis key
            nm = {k: v for k, v in nm.items() if k not in ("z", "y", "x")}
        else:
            nm = {k: v for k, v in nm.items() if k != key}
        return df, nm, mut
    if mut == "mapped_to_missing":
        key = ["time", "id", "parent_id"][pick % 3]
        nm = dict(nm)
        nm[key] = "no_such_column"
        return df, nm, mut
    return None


def _as_int(x):
    try:
        if x is None or (isinstance(x, float) and x != x):
            return None
        return int(x)
    except (TypeError, ValueError):
        return None


def probe_df(inp) -> ProbeResult:
    import pandas as pd

    from funtracks.import_export import tracks_from_df

    res = ProbeResult()
    df, nm, axes = _frame(inp)
    src_df = df.copy()
    mutated = _mutate(inp, df, nm) if inp["mutation"] else None
    if mutated is not None:
        df, nm, tag = mutated
        res.tags.append(f"c12:malformed:{'missing_column' if tag == 'mapped_to_missing' else tag}")
        res.nontrivial = ("df", "malformed", tag, inp["idkind"], inp["root"], inp["renamed"], len(inp["nodes"]))
        try:
            with warnings.catch_warnings():
                warnings.simplefilter("ignore")
                tracks = tracks_from_df(df, node_name_map=dict(nm))
        except ValueError:
            return res
        except Exception as e:  # noqa: BLE001
            res.fail(f"malformed_wrong_exception:{tag}:{type(e).__name__}",
                     f"malformed source ({tag}, ids {inp['idkind']}, renamed={inp['renamed']}) raised {e!r} instead of ValueError")
            return res
        res.fail(f"malformed_accepted:{tag}",
                 f"malformed source ({tag}, ids {inp['idkind']}, roots {inp['root']}, renamed={inp['renamed']}) was imported: "
                 f"{tracks.graph.number_of_nodes()} nodes, {tracks.graph.number_of_edges()} edges")
        return res
    try:
        with warnings.catch_warnings():
            warnings.simplefilter("ignore")
            if inp.get("via_file"):
                # the same table through a CSV file and the builder API
                from funtracks.import_export import CSVTracksBuilder

                tmpd = Path(tempfile.mkdtemp(prefix="verif-c12-"))
                try:
                    df.to_csv(tmpd / "t.csv", index=False)
                    b = CSVTracksBuilder()
                    b.read_header(tmpd / "t.csv")
                    b.node_name_map = dict(nm)
                    tracks = b.build(tmpd / "t.csv")
                finally:
                    shutil.rmtree(tmpd, ignore_errors=True)
                res.tags.append("c12:via_csv_file")
            elif inp.get("features_arg") and "cf" not in inp["customs"]:
                # a measurement loaded from a column through the features= argument
                res.tags.append("c12:features_arg")
                tracks = tracks_from_df(df, node_name_map=dict(nm), features={"Measure": inp["cols"]["cf"]})
            else:
                tracks = tracks_from_df(df, node_name_map=dict(nm))
    except Exception as e:  # noqa: BLE001 - a well-formed source must import
        res.fail(f"wellformed_refused:{type(e).__name__}:ids={inp['idkind']}",
                 f"well-formed table (ids {inp['idkind']}, roots {inp['root']}, renamed={inp['renamed']}) raised {e!r}")
        _classify(res, inp, "df")
        return res
    if not df.equals(src_df):
        res.fail("input_modified", "the source DataFrame was modified")
    g = tracks.graph
    nodes = inp["nodes"]
    by_uid = {m["uid"]: m for m in nodes}
    imp_by_uid = {}
    for n, d in g.nodes(data=True):
        u = _as_int(d.get("uid"))
        if u is None or u - 1000 in imp_by_uid:
            res.fail("custom:uid", f"imported node {n} has uid {d.get('uid')!r}")
            return res
        imp_by_uid[u - 1000] = n
    if set(imp_by_uid) != set(by_uid):
        res.fail("node_count", f"imported uids {sorted(imp_by_uid)} != source {sorted(by_uid)}")
        return res
    if inp["idkind"] in ("str", "float"):
        if any(not isinstance(x, (int, np.integer)) for x in g.nodes) or \
                sorted(int(x) for x in g.nodes) != list(range(1, len(nodes) + 1)):
            res.fail("renumbering", f"non-integer ids {inp['idkind']} imported as {sorted(g.nodes, key=repr)} (expected 1..n)")
            return res
    else:
        for u, m in by_uid.items():
            if _as_int(imp_by_uid[u]) != m["id"]:
                res.fail("node_ids", f"source id {m['id']} imported as {imp_by_uid[u]}")
                return res
    exp_edges = {(imp_by_uid[m["parent"]], imp_by_uid[m["uid"]]) for m in nodes if m["parent"] is not None}
    got_edges = set(g.edges)
    if got_edges != exp_edges:
        res.fail("edges", f"imported edges {sorted(got_edges)} != source links {sorted(exp_edges)} (imported ids)")
    order = list(range(inp["nsp"])) if inp.get("legacy_pos") else inp["pos_order"]
    if inp.get("legacy_pos"):
        res.tags.append("c12:legacy_axis_keys")
    src_tl = _source_track_ids(inp)
    feat_col = inp["cols"]["cf"] if (inp.get("features_arg") and "cf" not in inp["customs"] and not inp.get("via_file")) else None
    for u, m in by_uid.items():
        d = g.nodes[imp_by_uid[u]]
        if feat_col is not None and d.get(feat_col) != m["cf"]:
            res.fail("features_arg", f"node {m['id']}: column {feat_col!r} requested through features= is {d.get(feat_col)!r}, source {m['cf']!r}")
        if _as_int(d.get("time", -1)) != m["t"]:
            res.fail("time", f"node {m['id']}: time {d.get('time')} != {m['t']}")
        exp_pos = [m["pos"][i] for i in order]
        if not refs.close(list(d.get("pos", [])), exp_pos, rtol=0, atol=0):
            res.fail("position", f"node {m['id']}: pos {d.get('pos')} != {exp_pos} (mapped order {order})")
        for which, pos_ in (("track", 0), ("lineage", 1)):
            if inp.get("idcols") in ("both", which):
                key = tracks.features.tracklet_key if which == "track" else tracks.features.lineage_key
                if key is None or _as_int(d.get(key)) != src_tl[pos_][u]:
                    res.fail(f"source_{which}_ids", f"node {m['id']}: valid source {which} id {src_tl[pos_][u]} "
                             f"imported as {d.get(key) if key else None!r} (key {key!r})")
        for k in inp["customs"]:
            exp = [m["ci"], m["uid"]] if k == "cl" else m[k]
            got = d.get(k)
            got = list(got) if isinstance(got, (list, tuple, np.ndarray)) else got
            if k == "cl" and got == str(exp):
                continue  # the source cell is the string; parsing it to a list is optional
            if got != exp:
                res.fail(f"custom:{k}", f"node {m['id']}: {k} {got!r} != {exp!r}")
    _classify(res, inp, "df")
    return res


def _classify(res, inp, part):
    nodes = inp["nodes"]
    has_edge = any(m["parent"] is not None for m in nodes)
    res.tags.append(f"c12:ids={inp['idkind']}")
    if inp["renamed"]:
        res.tags.append("c12:renamed")
    if inp.get("crossed"):
        res.tags.append("c12:crossed_single_value_names")
    if inp.get("index_mode"):
        res.tags.append("c12:non_default_index")
    if inp.get("int_axes") and len(inp["int_axes"]) < inp["nsp"]:
        res.tags.append("c12:mixed_int_float_position_columns")
    if inp["nsp"] == 3:
        res.tags.append("c12:3D")
    if has_edge and (inp["renamed"] or inp["idkind"] != "contig" or inp["customs"] or inp["nsp"] == 3):
        kids = {}
        for m in nodes:
            if m["parent"] is not None:
                kids[m["parent"]] = kids.get(m["parent"], 0) + 1
        shape = tuple(sorted((m["t"], kids.get(m["uid"], 0)) for m in nodes))
        res.nontrivial = (part, inp["idkind"], inp["root"], inp["renamed"], tuple(inp["customs"]), inp["nsp"], shape)


# ----------------------------------------------------------------------------------------
def probe_geff(inp) -> ProbeResult:
    import geff

    from funtracks.import_export import import_from_geff

    res = ProbeResult()
    cols = inp["cols"]
    axes = ["z", "y", "x"][-inp["nsp"]:]
    by_uid = {m["uid"]: m for m in inp["nodes"]}
    g = nx.DiGraph()
    for m in inp["nodes"]:
        attrs = {cols["time"]: m["t"], cols["uid"]: 1000 + m["uid"], cols["ci"]: m["ci"], cols["cf"]: m["cf"]}
        for a, v in zip(axes, m["pos"]):
            attrs[cols[a]] = v
        g.add_node(m["id"], **attrs)
    for m in inp["nodes"]:
        if m["parent"] is not None:
            g.add_edge(by_uid[m["parent"]]["id"], m["id"], w=m["ew"])
    nm = {"time": cols["time"], "pos": [cols[axes[i]] for i in inp["pos_order"]], "uid": cols["uid"]}
    for k in inp["customs"]:
        if k in ("ci", "cf"):
            nm[k] = cols[k]
    # sparse properties: some nodes lack ci, others lack cf (GEFF stores a 'missing' mask)
    sparse = bool(inp.get("sparse")) and len(inp["nodes"]) >= 2
    lacks = {"ci": set(), "cf": set()}
    if sparse:
        for j, m in enumerate(inp["nodes"]):
            r = (inp["mpick"] + 3 * j) % 4
            if r == 0:
                lacks["ci"].add(m["id"])
            elif r == 1:
                lacks["cf"].add(m["id"])
        if all(m["id"] in lacks["ci"] for m in inp["nodes"]) or all(m["id"] in lacks["cf"] for m in inp["nodes"]):
            sparse = False
            lacks = {"ci": set(), "cf": set()}
        for m in inp["nodes"]:
            for k in ("ci", "cf"):
                if m["id"] in lacks[k]:
                    del g.nodes[m["id"]][cols[k]]
    # a two-column custom property; its columns may also be mapped on their own (duplicates are
    # allowed). As for position columns: columns of a composite keep their own names inside the
    # importer, so they are never spelled like another key of the map, and their single mappings
    # use keys that differ from the column names.
    std_names = {"time", "pos", "uid", "id", "parent_id", "seg_id", "track_id", "lineage_id", "pair", "k_cf", "k_ci"}
    pair = bool(inp.get("pair")) and not ({cols["cf"], cols["ci"]} & std_names)
    single_key = {"ci": "ci", "cf": "cf"}
    if pair:
        nm["pair"] = [cols["cf"], cols["ci"]]
        for k in ("ci", "cf"):
            if k in nm:
                del nm[k]
                nm["k_" + k] = cols[k]
                single_key[k] = "k_" + k
    mut = inp["mutation"]
    tag = None
    if mut in ("unmapped_key", "mapped_to_missing", "missing_column"):
        key = ["time", "pos"][inp["mpick"] % 2]
        nm = dict(nm)
        if mut == "unmapped_key":
            nm.pop(key)
        elif key == "time":
            nm[key] = "no_such_prop"
        else:
            nm[key] = ["no_such_prop"] + nm[key][1:]
        tag = "unmapped_key" if mut == "unmapped_key" else "missing_column"
    tmp = Path(tempfile.mkdtemp(prefix="verif-c12-"))
    try:
        with warnings.catch_warnings():
            warnings.simplefilter("ignore")
            geff.write(g, tmp / "g.zarr", axis_names=[cols["time"]] + [cols[a] for a in axes],
                       axis_types=["time"] + ["space"] * inp["nsp"])
            if mut in ("duplicate_id", "unknown_parent", "self_link"):
                # tamper with the written store (geff.write itself only writes valid graphs)
                import zarr

                z = zarr.open(str(tmp / "g.zarr"), mode="r+")
                nids = z["nodes"]["ids"]
                eids = z["edges"]["ids"]
                k = inp["mpick"]
                if mut == "duplicate_id" and nids.shape[0] >= 2:
                    nids[(k + 1) % nids.shape[0]] = nids[k % nids.shape[0]]
                    tag = mut
                elif mut == "unknown_parent" and eids.shape[0] >= 1:
                    eids[k % eids.shape[0], 0] = int(max(nids[:])) + 7
                    tag = mut
                elif mut == "self_link" and eids.shape[0] >= 1:
                    eids[k % eids.shape[0], 0] = eids[k % eids.shape[0], 1]
                    tag = mut
            if tag:
                res.tags.append(f"c12:malformed:{tag}")
                res.tags.append(f"c12:geff_malformed:{tag}")
                res.nontrivial = ("geff", "malformed", tag, inp["nsp"], len(inp["nodes"]))
                try:
                    tr = import_from_geff(tmp / "g.zarr", node_name_map=nm)
                except ValueError:
                    return res
                except Exception as e:  # noqa: BLE001
                    res.fail(f"malformed_wrong_exception:{tag}:{type(e).__name__}",
                             f"GEFF import of a store with {mut} raised {e!r} instead of ValueError")
                    return res
                res.fail(f"malformed_accepted:{tag}", f"GEFF import with {mut} ({nm}) was accepted")
                return res
            try:
                tr = import_from_geff(tmp / "g.zarr", node_name_map=nm,
                                      edge_name_map={"w": "w"} if g.number_of_edges() else None)
            except Exception as e:  # noqa: BLE001
                res.fail(f"wellformed_refused:{type(e).__name__}", f"well-formed GEFF raised {e!r}")
                return res
    finally:
        shutil.rmtree(tmp, ignore_errors=True)
    gi = tr.graph
    if {int(n) for n in gi.nodes} != {m["id"] for m in inp["nodes"]}:
        res.fail("node_ids", f"nodes {sorted(gi.nodes)} != {[m['id'] for m in inp['nodes']]}")
        return res
    exp_edges = {(by_uid[m["parent"]]["id"], m["id"]) for m in inp["nodes"] if m["parent"] is not None}
    if {(int(u), int(v)) for u, v in gi.edges} != exp_edges:
        res.fail("edges", f"edges {sorted(gi.edges)} != {sorted(exp_edges)}")
    for m in inp["nodes"]:
        d = gi.nodes[m["id"]]
        if int(d.get("time", -1)) != m["t"]:
            res.fail("time", f"node {m['id']}: time {d.get('time')} != {m['t']}")
        exp_pos = [m["pos"][i] for i in inp["pos_order"]]
        if not refs.close(list(d.get("pos", [])), exp_pos, rtol=0, atol=0):
            res.fail("position", f"node {m['id']}: pos {d.get('pos')} != {exp_pos} (mapped order {inp['pos_order']})")
        if int(d.get("uid", -1)) != 1000 + m["uid"]:
            res.fail("custom:uid", f"node {m['id']}: uid {d.get('uid')}")
        for k in inp["customs"]:
            if k in ("ci", "cf"):
                exp = None if m["id"] in lacks[k] else m[k]
                if d.get(single_key[k]) != exp:
                    res.fail(f"custom:{k}" + (":sparse" if sparse else ""),
                             f"node {m['id']}: {single_key[k]} {d.get(single_key[k])!r} != {exp!r} (source value; None = absent on this node)")
        if pair:
            got = d.get("pair")
            got = None if got is None else [float(x) for x in got]
            if m["id"] in lacks["cf"] or m["id"] in lacks["ci"]:
                if got is not None and not any(x != x for x in got):
                    pass  # a combined value where a component is missing is unconstrained
            elif got != [float(m["cf"]), float(m["ci"])]:
                res.fail("custom:pair", f"node {m['id']}: pair {got!r} != {[m['cf'], m['ci']]!r}")
        if m["parent"] is not None:
            e = gi.edges[by_uid[m["parent"]]["id"], m["id"]]
            if e.get("w") != m["ew"]:
                res.fail("edge_prop", f"edge to {m['id']}: w {e.get('w')} != {m['ew']}")
    if sparse:
        res.tags.append("c12:geff_sparse_properties")
    if pair:
        res.tags.append("c12:geff_composite_custom")
    _classify(res, inp, "geff")
    return res


PARTS = [
    Part("df", sources(), probe_df, quick=3000, thorough=30000),
    Part("geff", sources(geff=True), probe_geff, quick=400, thorough=4000, shrink=False),
]


def run_shard(ctx):
    pure.run_shard(ctx, PARTS)


def replay(obj, col):
    pure.replay(PARTS, obj, col)


def minimise(bucket, failure):
    return pure.minimise(PARTS, bucket, failure)
