"""C09 - edge IoU always equals the true overlap of the endpoint masks."""
from ..oracles import C09Oracle
from ._machine_prop import make

ID = "C09"
RULE = (
    "Walks on tracks with segmentation whose forests contain skip edges and children placed near "
    "their parent (overlaps are common). IoU is enabled at construction or at a random later step, "
    "disabled and re-enabled, or recomputed in bulk in the middle of a history (extra op). After "
    "every step with IoU enabled: every edge's stored value == |A and B|/|A or B| (exact Fraction, "
    "each mask in its endpoint's own frame), rtol 1e-9. Non-trivial = an edge with 0 < IoU < 1; "
    "distinct by (bulk/incremental, skip/consecutive, numerator, denominator)."
)
ASSUMPTIONS = []
REQUIRED_CLASSES = {t: ["iou_edge:skip:bulk", "iou_edge:skip:incremental", "iou_edge:consecutive:bulk",
                        "iou_edge:consecutive:incremental"] for t in ("quick", "thorough")}
run_shard, replay, minimise = make(C09Oracle, quick=(1600, 25), thorough=(3200, 40), profile="paint",
                                   cfg_kwargs={"seg": True}, init_kwargs={"need_edges": True})
