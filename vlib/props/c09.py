"""C09 - edge IoU always equals the true overlap of the endpoint masks."""
from __future__ import annotations

import warnings

import numpy as np

from .. import pure, refs
from ..hyp import st
from ..oracles import C09Oracle
from ..pure import Part, ProbeResult
from ._machine_prop import make

ID = "C09"
RULE = (
    "(a) Walks on tracks with segmentation whose forests contain skip edges and children placed near "
    "their parent (overlaps are common). IoU is enabled at construction or at a random later step, "
    "disabled and re-enabled, or recomputed in bulk in the middle of a history (extra op). After "
    "every step with IoU enabled: every edge's stored value == |A and B|/|A or B| (exact Fraction, "
    "each mask in its endpoint's own frame), rtol 1e-9. (b) Part 'frames': label stacks of every "
    "integer dtype (8/16/32/64 bit, signed and unsigned) whose labels sit near the limits of the "
    "dtype, around 2**8, 2**16 and up to 10**6, many labels per frame, with a forest over them; IoU "
    "is enabled (bulk), then one edge is removed and added again and one node repainted "
    "(incremental); same oracle. Non-trivial = an edge with 0 < IoU < 1; distinct by "
    "(bulk/incremental, skip/consecutive, numerator, denominator), in (b) also dtype and label range."
)
ASSUMPTIONS = ["part 'frames': labels <= 10**6 (skimage.regionprops allocates per label value)"]
REQUIRED_CLASSES = {t: ["iou_edge:skip:bulk", "iou_edge:skip:incremental", "iou_edge:consecutive:bulk",
                        "iou_edge:consecutive:incremental", "frames:narrow_dtype_large_label",
                        "frames:many_labels"] for t in ("quick", "thorough")}
_m_run, _m_replay, _m_minimise = make(C09Oracle, quick=(1600, 25), thorough=(3200, 40), profile="paint",
                                      cfg_kwargs={"seg": True}, init_kwargs={"need_edges": True})

DTYPES = ["uint8", "int8", "uint16", "int16", "uint32", "int32", "uint64", "int64"]


def _build(rnd) -> dict:
    dtype = rnd.choice(DTYPES)
    top = min(int(np.iinfo(dtype).max), 10**6)
    ndim = 3 if rnd.random() < 0.8 else 4
    shape = [rnd.randint(5, 12), rnd.randint(5, 12)] if ndim == 3 else [3, rnd.randint(4, 6), rnd.randint(4, 6)]
    frames = rnd.randint(2, 5)
    many = rnd.random() < 0.3
    # label pool: near the top of the dtype, around powers of two, small
    anchors = [a for a in (top, top // 2, 2**16, 2**8, 2**4, 1, 46341, 65536 + 5, 181, 4097) if 1 <= a <= top]
    used: set[int] = set()
    nodes = []
    per_frame: list[list[dict]] = []
    for t in range(frames):
        k = rnd.randint(4, 9) if many else rnd.randint(0, 4)
        cur = []
        for _ in range(k):
            a = rnd.choice(anchors)
            lab = max(1, min(top, a - rnd.randint(0, 30) if rnd.random() < 0.7 else rnd.randint(1, top)))
            if lab in used:
                continue
            used.add(lab)
            parent = None
            prev = [n for fr in per_frame for n in fr if n["kids"] < 2]
            if prev and rnd.random() < 0.8:
                last = [n for n in prev if n["t"] == t - 1]
                parent = rnd.choice(last if last and rnd.random() < 0.7 else prev)
            lo, hi = [], []
            for d, s in enumerate(shape):
                ln = rnd.randint(1, max(1, min(4, s - 1)))
                if parent is not None and rnd.random() < 0.75:
                    a0 = max(0, min(s - ln, parent["box"][0][d] + rnd.randint(-1, 1)))
                else:
                    a0 = rnd.randint(0, s - ln)
                lo.append(a0)
                hi.append(a0 + ln)
            n = {"id": lab, "t": t, "box": [lo, hi], "parent": None if parent is None else parent["id"], "kids": 0}
            if parent is not None:
                parent["kids"] += 1
            cur.append(n)
        per_frame.append(cur)
        nodes.extend(cur)
    for n in nodes:
        n.pop("kids")
    return {"dtype": dtype, "ndim": ndim, "shape": shape, "frames": frames, "nodes": nodes,
            "solution": rnd.random() < 0.5, "edit": rnd.random() < 0.6, "edit_pick": rnd.randint(0, 10**6)}


def frames_inputs():
    return st.randoms(use_true_random=False).map(_build)


def _mask(seg, n):
    return seg[n["t"]] == n["id"]


def probe_frames(v) -> ProbeResult:
    import networkx as nx
    from funtracks.data_model import SolutionTracks, Tracks

    res = ProbeResult()
    seg = np.zeros((v["frames"], *v["shape"]), dtype=v["dtype"])
    for n in v["nodes"]:  # later labels overwrite earlier ones
        seg[(n["t"], *[slice(a, b) for a, b in zip(*n["box"])])] = n["id"]
    alive = {n["id"]: n for n in v["nodes"] if _mask(seg, n).any()}
    g = nx.DiGraph()
    for n in alive.values():
        g.add_node(n["id"], time=n["t"])
    for n in alive.values():
        if n["parent"] in alive:
            g.add_edge(n["parent"], n["id"])
    if not g.number_of_edges():
        res.discarded = "no_edge"
        return res
    with warnings.catch_warnings():
        warnings.simplefilter("ignore")
        cls = SolutionTracks if v["solution"] else Tracks
        tr = cls(g, segmentation=seg, ndim=v["ndim"])

        def compare(how):
            for a, b in sorted(tr.graph.edges):
                ref = refs.iou(tr.segmentation[alive[a]["t"]] == a, tr.segmentation[alive[b]["t"]] == b)
                got = tr.graph.edges[a, b].get("iou")
                skip = alive[b]["t"] - alive[a]["t"] > 1
                if got is None or not refs.close(float(got), float(ref)):
                    res.fail(f"{how}:{'skip' if skip else 'consecutive'}",
                             f"{how} ({v['dtype']}): edge ({a},{b}) t={alive[a]['t']}->{alive[b]['t']}: stored iou "
                             f"{got!r} != {float(ref)!r} ({ref})")
                    return
                if 0 < ref < 1:
                    res.tags.append(f"iou_edge:{'skip' if skip else 'consecutive'}:{how}")
                    res.nontrivial = (v["dtype"], how, skip, ref.numerator, ref.denominator,
                                      int(np.log2(max(a, b))))
        try:
            _run(v, res, tr, alive, compare)
        except Exception as e:  # noqa: BLE001 - a well-formed label stack: raising leaves no value
            res.fail(f"raised:{type(e).__name__}", f"({v['dtype']}) IoU computation raised {e!r} on a well-formed input")
    _tags(v, res, alive)
    return res


def _run(v, res, tr, alive, compare):
    from funtracks.actions import UpdateNodeSeg
    from funtracks.data_model import SolutionTracks
    from funtracks.user_actions import UserAddEdge, UserDeleteEdge

    tr.enable_features(["iou"])
    compare("bulk")
    if not v["edit"] or res.failures or not isinstance(tr, SolutionTracks):
        return
    edges = sorted(tr.graph.edges)
    e = edges[v["edit_pick"] % len(edges)]
    UserDeleteEdge(tr, e)
    UserAddEdge(tr, e)
    # grow the target of the edge by a third of the free pixels of its frame
    tgt = alive[e[1]]
    free = np.nonzero(tr.segmentation[tgt["t"]] == 0)
    if len(free[0]):
        k = max(1, len(free[0]) // 3)
        px = (np.full(k, tgt["t"]), *[a[:k] for a in free])
        UpdateNodeSeg(tr, e[1], px, added=True)
    compare("incremental")


def _tags(v, res, alive):
    top = int(np.iinfo(v["dtype"]).max)
    biggest = max(alive)
    if np.iinfo(v["dtype"]).bits <= 16 and biggest * biggest > top:
        res.tags.append("frames:narrow_dtype_large_label")
    if np.iinfo(v["dtype"]).bits == 32 and biggest * biggest > top:
        res.tags.append("frames:32bit_product_overflow")
    if max(sum(1 for n in alive.values() if n["t"] == t) for t in range(v["frames"])) >= 5:
        res.tags.append("frames:many_labels")


PARTS = [Part("frames", frames_inputs(), probe_frames, quick=1600, thorough=12000)]


def run_shard(ctx):
    pure.run_shard(ctx, PARTS)
    _m_run(ctx)


def replay(obj, col):
    if obj.get("part"):
        return pure.replay(PARTS, obj, col)
    return _m_replay(obj, col)


def minimise(bucket, failure):
    if failure["replay"].get("part"):
        return pure.minimise(PARTS, bucket, failure)
    return _m_minimise(bucket, failure)
