"""Boilerplate shared by the machine-based property modules."""

from __future__ import annotations

from .. import machine


def make(oracle_cls, *, quick, thorough, profile, cfg_kwargs=None, init_kwargs=None,
         refusal_bias=0.08, oracle_kwargs=None):
    """quick/thorough = (n_walks, steps)."""

    def run_shard(ctx):
        n, steps = quick if ctx.tier == "quick" else thorough
        ck, ik = dict(cfg_kwargs or {}), dict(init_kwargs or {})
        # part of the budget goes to larger structures and longer histories (more nodes, more
        # frames, larger frames, twice the steps): a third in the thorough tier, an eighth in quick
        part = n // 3 if ctx.tier == "thorough" else n // 8
        if part:
            machine.run_walks(ctx, oracle_cls, n_walks=ctx.share(part), steps=steps * 2, profile=profile,
                              cfg_kwargs={**ck, "max_frames": 12, "big_frames": True},
                              init_kwargs={**ik, "max_nodes": 20},
                              refusal_bias=refusal_bias, oracle_kwargs=oracle_kwargs)
            n = n - part
            ctx.seed = (ctx.seed * 2654435761 + 1) % 2**32
            ctx.col.event("big_walks", 0)
        machine.run_walks(ctx, oracle_cls, n_walks=ctx.share(n), steps=steps, profile=profile,
                          cfg_kwargs=ck, init_kwargs=ik,
                          refusal_bias=refusal_bias, oracle_kwargs=oracle_kwargs)

    def replay(obj, col):
        machine.replay_trace(obj, oracle_cls, col, oracle_kwargs)

    def minimise(bucket, failure):
        return machine.minimise_trace(bucket, failure, oracle_cls, oracle_kwargs)

    return run_shard, replay, minimise
