"""Boilerplate shared by the machine-based property modules."""

from __future__ import annotations

from .. import machine


def make(oracle_cls, *, quick, thorough, profile, cfg_kwargs=None, init_kwargs=None,
         refusal_bias=0.08, oracle_kwargs=None):
    """quick/thorough = (n_walks, steps)."""

    def run_shard(ctx):
        n, steps = quick if ctx.tier == "quick" else thorough
        machine.run_walks(ctx, oracle_cls, n_walks=ctx.share(n), steps=steps, profile=profile,
                          cfg_kwargs=cfg_kwargs, init_kwargs=init_kwargs,
                          refusal_bias=refusal_bias, oracle_kwargs=oracle_kwargs)

    def replay(obj, col):
        machine.replay_trace(obj, oracle_cls, col, oracle_kwargs)

    def minimise(bucket, failure):
        return machine.minimise_trace(bucket, failure, oracle_cls, oracle_kwargs)

    return run_shard, replay, minimise
