"""C20 - exactly one refresh notification per successful change."""
from ..oracles import C20Oracle
from ._machine_prop import make

ID = "C20"
RULE = (
    "Walks with all user actions (incl. swap, paint and forced variants, which nest other user "
    "actions), refusals, undo/redo incl. exhausted ones. A listener on tracks.refresh records "
    "payloads per call: successful top-level action/undo/redo -> exactly 1 emission (payload == "
    "new node id for add_node and for a paint that created a node), refusal or False undo/redo "
    "-> 0. Non-trivial = composite action with >=1 nested user action, a refusal, or an exhausted "
    "undo/redo; distinct by (kind, class, nesting depth / exception, force, local topology)."
)
ASSUMPTIONS = ["payloads other than the new node id are unconstrained"]
REQUIRED_CLASSES = {t: ["nested:swap", "nested:paint", "refused:add_edge", "exhausted_redo"]
                    for t in ("quick", "thorough")}
run_shard, replay, minimise = make(C20Oracle, quick=(3200, 30), thorough=(6400, 50), profile="general",
                                   refusal_bias=0.12)
