"""C07 - segmentation labels and nodes stay in one-to-one correspondence."""
from ..oracles import C07Oracle
from ._machine_prop import make

ID = "C07"
RULE = (
    "Walks on tracks with segmentation (2D+t and 3D+t) with a paint-heavy profile: strokes are box "
    "unions derived from existing masks (whole / part / grown) or random, value in {0, existing "
    "label of the frame, fresh label}, plus node/edge edits, undo, redo. After every step: set of "
    "non-zero labels == node set, each label occurs in exactly its node's frame, get_pixels(n) == "
    "(t, nonzero(seg[t]==n)) elementwise. For an accepted paint: array == the harness's painted "
    "array bit for bit, undo() -> == previous array bit for bit, redo() -> == painted. Non-trivial = "
    "stroke overwriting >=1 pixel of another node; distinct by (value class, #partially / #totally "
    "overwritten nodes, ndim, force, order of the reported pixel groups)."
)
ASSUMPTIONS = ["a stroke's value is never the id of a node living in another frame (labels are node ids; the GUI picks a new label)"]
REQUIRED_CLASSES = {t: ["paint:erase", "paint:existing", "paint:new", "paint:overwrite:partial=1:total=0",
                        "paint:overwrite:partial=0:total=1", "cfg:3D"] for t in ("quick", "thorough")}
run_shard, replay, minimise = make(C07Oracle, quick=(3200, 36), thorough=(6400, 50), profile="paint",
                                   cfg_kwargs={"seg": True})
