"""C08 - node measurements always equal those of the node's current mask."""
from ..oracles import C08Oracle
from ._machine_prop import make

ID = "C08"
RULE = (
    "Walks on tracks with segmentation, any subset of {ellipse_axis_radii, circularity, perimeter} "
    "enabled next to area/position, scale None / isotropic / anisotropic; shape features are also "
    "disabled and re-enabled in the middle of a history. After construction and "
    "every step, for every node and enabled key: stored == independent reference on the current "
    "mask (area = count*voxel, position = mean index*spacing; perimeter via skimage.perimeter / "
    "marching cubes called by the harness; circularity/sphericity and inertia axes from own "
    "formulas, numpy eigvalsh), rtol 1e-9; every third mask-changing step and after undo/redo also "
    "equality with a from-scratch Tracks built on copies (bulk path). Non-trivial = a step that "
    "changed some node's mask; distinct by (feature set, scale class, change kinds, op, ndim)."
)
ASSUMPTIONS = ["2D perimeter/circularity only with isotropic spacing (skimage raises otherwise)",
               "3D masks for which marching cubes / inertia axes are undefined are not generated (excluded counter)"]
REQUIRED_CLASSES = {t: ["mask_change:grown", "mask_change:shrunk", "mask_change:new", "bulk_differential",
                        "cfg:scale=anisotropic", "cfg:3D", "cfg:opt=perimeter", "cfg:opt=ellipse_axis_radii",
                        "re_enable_feature"]
                    for t in ("quick", "thorough")}
run_shard, replay, minimise = make(C08Oracle, quick=(1600, 25), thorough=(3200, 40), profile="paint",
                                   cfg_kwargs={"seg": True, "allow_stray": True})
