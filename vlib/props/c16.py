"""C16 - exports, saves and queries never modify the tracks."""
from ..oracles import C16Oracle
from ._machine_prop import make

ID = "C16"
RULE = (
    "Walks over all configurations (scale None / given, single-key / per-axis position, +-"
    "segmentation, 2D/3D; also segmentation together with per-axis positions, which is only "
    "constructible through a pre-built registry and is only queried/exported, never edited) in which ~45% of the steps are read-only operations on the current "
    "(edited) tracks: export_to_csv (plain, display names, node subset, with relabelled tif), "
    "export_to_geff (full, subset, zarr v3), save_tracks, deprecated export_tracks, and query "
    "groups (track neighbours / presence / next ids / lookups; nodes / edges / degrees / "
    "predecessors / successors / available features; positions / times / pixels / attributes). "
    "Oracle: deep snapshot (every stored attribute, segmentation, scale, registry incl. annotator "
    "activation, lookups as sorted lists, identity of the history stacks) before == after; an "
    "exception raised by the operation itself is not a modification. Non-trivial = a read-only "
    "operation on a graph with >=1 edge; distinct by (operation, scale class, seg, ndim, position "
    "mode, subset, history depth)."
)
ASSUMPTIONS = ["_get_new_node_ids is not a query (it issues ids and advances its counter by design)"]
REQUIRED_CLASSES = {t: ["ro:export_geff:ok", "ro:export_csv:ok", "ro:save_tracks:ok", "ro:queries_track:ok",
                        "ro:export_geff_subset:ok", "cfg:scale=None", "cfg:per_axis_pos",
                        "cfg:seg_with_per_axis_pos"]
                    for t in ("quick", "thorough")}
run_shard, replay, minimise = make(C16Oracle, quick=(320, 24), thorough=(3200, 40), profile="general",
                                   cfg_kwargs={"allow_seg_axes": True, "allow_stray": True})
