"""C15 - subset export is closed under ancestors and contains nothing else."""

from __future__ import annotations

import shutil
import tempfile
import warnings
from pathlib import Path

import numpy as np

from .. import pure, refs
from ..hyp import st
from ..pure import Part, ProbeResult
from ..world import World, gen_config, gen_init, gen_op, swarm

ID = "C15"
RULE = (
    "Hypothesis @given: a generated solution (random forest with divisions, skip edges, several "
    "lineages, non-contiguous ids; 2D/3D; with/without segmentation; 15 % long-track layouts of 20-50 nodes "
    "with frame-strided ids), optionally after an editing "
    "session of 3-12 random user actions, or built through the import path with relabelled "
    "segmentation (nodes keep a source seg_id), and a non-empty random node "
    "subset (biased to leaves below divisions, roots, nodes of several lineages). CSV "
    "(export_to_csv, plain and display names, with the relabelled tif) and GEFF (export_to_geff, "
    "with segmentation) are written with node_ids=subset and read back with pandas / tifffile / "
    "geff.read / zarr. Oracle: exported id set == subset U ancestors (independent BFS over parent "
    "links); exported edges == induced edges; every non-root row's parent is exported and equals "
    "the graph parent; GEFF segmentation == where(isin(seg, closure), seg, 0); the CSV tif is "
    "non-zero exactly on the closure's masks and carries their track ids. Non-trivial = closure "
    "strictly larger than the subset and strictly smaller than the graph; distinct by (format, "
    "seg, ndim, |subset|, |closure|, |nodes|, #lineages hit)."
)
ASSUMPTIONS = ["subsets are non-empty and contain only existing nodes"]
REQUIRED_CLASSES = {t: ["c15:closure_strictly_between", "c15:several_lineages", "part:geff", "part:csv", "c15:after_session", "c15:imported_seg_id_differs",
                        "c15:export_history_export", "c15:large_sparse_closure",
                        "c15:other_selection_exported_before"]
                    for t in ("quick", "thorough")}


def _make(rnd, fmt, session=False):
    if rnd.random() < 0.15:
        # long tracks (20-50 nodes, sparse strided ids): selections whose closure is large
        cfg = gen_config(rnd, allow_optional=False, big_frames=True, max_frames=12)
        cfg["layout"] = "lanes"
        cfg["frames"] = max(cfg["frames"], rnd.randint(8, 16))
        if cfg["seg"] and rnd.random() < 0.7:
            cfg["seg_dtype"] = rnd.choice(["int64", "uint32", "int32", "uint64"])
            cfg["lane_stride"] = rnd.choice([1000, 10000])
    else:
        cfg = gen_config(rnd, allow_optional=False)
    init = gen_init(rnd, cfg, max_nodes=10, need_edges=True)
    ops = []
    mid = []
    ids = [n["id"] for n in init["nodes"]]
    parents = {n["id"]: n["parent"] for n in init["nodes"]}
    if session:
        # an editing session first: the export then sees node ids / attributes as edits leave them
        import copy

        with warnings.catch_warnings():
            warnings.simplefilter("ignore")
            world = World(copy.deepcopy(init))
            weights = swarm(rnd, "general")
            for _ in range(rnd.randint(3, 12)):
                world.apply(gen_op(world, rnd, weights))
        ops = list(world.trace)
        mid = []
        if rnd.random() < 0.5:
            # export once, step through history, export the same selection again
            mid = [{"op": "undo"}] * rnd.randint(1, 2) if rnd.random() < 0.7 else [{"op": "undo"}, {"op": "redo"}, {"op": "undo"}]
            with warnings.catch_warnings():
                warnings.simplefilter("ignore")
                for o in mid:
                    world.apply(dict(o))
        ids = world.nodes()
        parents = {n: None for n in ids}
        for u, v in world.edges():
            parents[v] = u
    has_child = {p for p in parents.values() if p is not None}
    leaves = [i for i in ids if i not in has_child]
    subset = []
    if ids:
        k = rnd.randint(1, min(3, len(ids))) if cfg.get("layout") != "lanes" else rnd.randint(2, min(5, len(ids)))
        for _ in range(k):
            pool = leaves if (leaves and rnd.random() < 0.6) else ids
            subset.append(pool[rnd.randint(0, len(pool) - 1)])
    before = []
    if ids and rnd.random() < 0.35:
        # an earlier export of another selection from the same tracks object
        before = sorted({ids[rnd.randint(0, len(ids) - 1)] for _ in range(rnd.randint(1, 2))})
    return {"init": init, "ops": ops, "mid_ops": mid if session else [], "subset": sorted(set(subset)), "fmt": fmt,
            "export_before": before, "export_before_fmt": rnd.choice(["geff", "geff", "csv"]),
            "colors": rnd.random() < 0.3,
            "display": rnd.random() < 0.3, "zarr": 3 if rnd.random() < 0.3 else 2}


def inputs(fmt, session=False):
    return st.randoms(use_true_random=False).map(lambda rnd: _make(rnd, fmt, session))


def _classify(res, inp, world, closure):
    nodes = set(world.nodes())
    sub = set(inp["subset"])
    lin = {frozenset(c) for c in refs.lineages(nodes, world.edges())}
    hit = sum(1 for c in lin if c & sub)
    if hit > 1:
        res.tags.append("c15:several_lineages")
    if len(closure) >= 24 and world.cfg["seg"] and nodes and max(nodes) - min(nodes) > 3000:
        res.tags.append("c15:large_sparse_closure")
    if sub < closure < nodes:
        res.tags.append("c15:closure_strictly_between")
        res.nontrivial = (inp["fmt"], world.cfg["seg"], world.ndim, len(sub), len(closure), len(nodes), hit)


def probe(inp) -> ProbeResult:
    res = ProbeResult()
    if not inp["subset"]:
        res.discarded = "empty_graph"
        return res
    with warnings.catch_warnings():
        warnings.simplefilter("ignore")
        world = World(inp["init"])
        for op in inp.get("ops", []):
            world.apply(dict(op))
        if inp.get("mid_ops"):
            first = set(inp["subset"]) & set(world.nodes())
            if first:
                from funtracks.import_export import export_to_csv, export_to_geff

                tmp0 = Path(tempfile.mkdtemp(prefix="verif-c15-"))
                try:
                    if inp["fmt"] == "csv":
                        export_to_csv(world.tracks, tmp0 / "first.csv", node_ids=first)
                    else:
                        export_to_geff(world.tracks, tmp0 / "first", node_ids=first)
                    res.tags.append("c15:export_history_export")
                except Exception:  # noqa: BLE001 - judged by the final export only
                    pass
                finally:
                    shutil.rmtree(tmp0, ignore_errors=True)
            for op in inp["mid_ops"]:
                world.apply(dict(op))
    if inp.get("export_before") and set(inp["export_before"]) <= set(world.nodes()):
        from funtracks.import_export import export_to_csv, export_to_geff

        if world.tracks.segmentation is not None:
            # the masks the user's nodes have before anything is exported are the reference
            inp = {**inp, "_pristine_seg": np.array(world.tracks.segmentation)}

        tmp0 = Path(tempfile.mkdtemp(prefix="verif-c15-"))
        try:
            with warnings.catch_warnings():
                warnings.simplefilter("ignore")
                if inp.get("export_before_fmt") == "csv":
                    kw = {"export_seg": True, "seg_path": tmp0 / "s.tif"} if world.tracks.segmentation is not None else {}
                    export_to_csv(world.tracks, tmp0 / "first.csv", node_ids=set(inp["export_before"]), **kw)
                else:
                    export_to_geff(world.tracks, tmp0 / "first", node_ids=list(inp["export_before"]))
            res.tags.append("c15:other_selection_exported_before")
        except Exception:  # noqa: BLE001 - judged by the final export only
            pass
        finally:
            shutil.rmtree(tmp0, ignore_errors=True)
    if inp.get("ops"):
        res.tags.append("c15:after_session")
    if not set(inp["subset"]) <= set(world.nodes()):
        res.discarded = "subset_not_in_graph"
        return res
    tr = world.tracks
    edges = world.edges()
    closure = refs.ancestors_closure(edges, inp["subset"])
    induced = {(u, v) for u, v in edges if u in closure and v in closure}
    parent = {v: u for u, v in edges}
    tmp = Path(tempfile.mkdtemp(prefix="verif-c15-"))
    try:
        with warnings.catch_warnings():
            warnings.simplefilter("ignore")
            if inp["fmt"] == "csv":
                _probe_csv(res, inp, world, tr, closure, parent, tmp)
            else:
                _probe_geff(res, inp, world, tr, closure, induced, tmp)
    except Exception as e:  # noqa: BLE001 - exporting a valid subset must not raise
        res.fail(f"exception:{type(e).__name__}", f"{inp['fmt']} subset export raised {e!r}")
    finally:
        shutil.rmtree(tmp, ignore_errors=True)
    _classify(res, inp, world, closure)
    return res


def _probe_csv(res, inp, world, tr, closure, parent, tmp):
    import pandas as pd
    import tifffile

    from funtracks.import_export import export_to_csv

    seg = inp.get("_pristine_seg") if inp.get("_pristine_seg") is not None else tr.segmentation
    display = inp["display"]
    kwargs = {}
    if seg is not None and (not display or inp.get("zarr") == 3):
        # (with display names in a third of those cases: the flag "zarr" is unused for CSV)
        kwargs = {"export_seg": True, "seg_path": tmp / "s.tif"}
    if inp.get("colors"):
        # a colour for every node (as a viewer keeps them): adds a colour column, nothing else
        kwargs["color_dict"] = {n: np.array([(int(n) % 7) / 7.0, 0.5, 1.0, 1.0]) for n in world.nodes()}
        res.tags.append("c15:csv_with_colors")
    export_to_csv(tr, tmp / "t.csv", node_ids=set(inp["subset"]), use_display_names=display, **kwargs)
    df = pd.read_csv(tmp / "t.csv")
    idc, pc = ("ID", "Parent ID") if display else ("id", "parent_id")
    ids = [int(x) for x in df[idc].tolist()]
    if len(ids) != len(set(ids)):
        res.fail("csv_duplicate_rows", f"ids {ids}")
    if set(ids) != closure:
        res.fail("csv_ids:" + ("missing" if closure - set(ids) else "extra"),
                 f"subset {inp['subset']}: exported ids {sorted(set(ids))} != subset+ancestors {sorted(closure)}")
        return
    for i, p in zip(df[idc].tolist(), df[pc].tolist()):
        exp = parent.get(int(i))
        got = None if pd.isna(p) else int(p)
        if got != exp:
            res.fail("csv_parent", f"node {i}: parent {got} != {exp}")
        if got is not None and got not in set(ids):
            res.fail("csv_parent_missing", f"node {i}: parent {got} is not exported")
    if "export_seg" in kwargs:
        out = tifffile.imread(tmp / "s.tif")
        exp = np.zeros(seg.shape, dtype=np.int64)
        for n in closure:
            exp[world.time(n)][seg[world.time(n)] == n] = int(tr.get_track_id(n))
        if out.shape != exp.shape or not np.array_equal(out.astype(np.int64), exp):
            bad = np.argwhere(out.astype(np.int64) != exp) if out.shape == exp.shape else []
            res.fail("csv_seg", f"relabelled tif differs from the closure's masks at {len(bad)} pixels")


def _probe_geff(res, inp, world, tr, closure, induced, tmp):
    import geff
    import zarr

    from funtracks.import_export import export_to_geff

    seg = inp.get("_pristine_seg") if inp.get("_pristine_seg") is not None else tr.segmentation
    export_to_geff(tr, tmp / "g", node_ids=set(inp["subset"]), zarr_format=inp["zarr"])
    g, _ = geff.read(tmp / "g" / "tracks")
    ids = {int(n) for n in g.nodes}
    if ids != closure:
        res.fail("geff_ids:" + ("missing" if closure - ids else "extra"),
                 f"subset {inp['subset']}: exported nodes {sorted(ids)} != subset+ancestors {sorted(closure)}")
        return
    got_edges = {(int(u), int(v)) for u, v in g.edges}
    if got_edges != induced:
        res.fail("geff_edges", f"exported edges {sorted(got_edges)} != induced {sorted(induced)}")
    if seg is not None:
        z = zarr.open(str(tmp / "g" / "segmentation"), mode="r")
        out = np.asarray(z[:])
        exp = np.where(np.isin(seg, sorted(closure)), seg, 0)
        if out.shape != exp.shape or not np.array_equal(out.astype(np.int64), exp.astype(np.int64)):
            res.fail("geff_seg", "exported segmentation != masks of subset+ancestors")


# ---- tracks that came through the import path (labels relabelled to node ids; the nodes keep
# ---- their source seg_id attribute) ------------------------------------------------------
class _Shim:
    def __init__(self, tracks, ndim):
        self.tracks = tracks
        self.ndim = ndim
        self.cfg = {"seg": True}

    def nodes(self):
        return sorted(int(n) for n in self.tracks.graph.nodes)

    def edges(self):
        return sorted((int(u), int(v)) for u, v in self.tracks.graph.edges)

    def time(self, n):
        return int(self.tracks.get_time(n))


@st.composite
def imported_inputs(draw, fmt):
    from . import c13

    base = draw(c13.inputs(with_df=True))
    base["with_pos"] = False
    base["fmt"] = fmt
    base["picks"] = draw(st.lists(st.integers(0, 50), min_size=1, max_size=3))
    base["display"] = False
    base["zarr"] = 2
    return base


def probe_imported(inp) -> ProbeResult:
    import pandas as pd

    from funtracks.import_export import tracks_from_df

    from . import c13

    res = ProbeResult()
    if not inp["nodes"] or any(n["id"] == 0 for n in inp["nodes"]):
        res.discarded = "no_nodes_or_id0"
        return res
    seg = c13._build(inp)
    rows = [{"t": n["t"], "id": n["id"], "parent_id": -1 if n["parent"] is None else n["parent"],
             "seg_id": n["seg_id"]} for n in inp["nodes"]]
    nm = {"time": "t", "id": "id", "parent_id": "parent_id", "seg_id": "seg_id"}
    with warnings.catch_warnings():
        warnings.simplefilter("ignore")
        try:
            tracks = tracks_from_df(pd.DataFrame(rows), seg, node_name_map=nm)
        except Exception as e:  # noqa: BLE001 - C13's subject, not this property's
            res.discarded = f"import_failed:{type(e).__name__}"
            return res
    world = _Shim(tracks, len(inp["spatial"]) + 1)
    ids = world.nodes()
    subset = sorted({ids[p % len(ids)] for p in inp["picks"]})
    inp2 = dict(inp, subset=subset)
    edges = world.edges()
    closure = refs.ancestors_closure(edges, subset)
    induced = {(u, v) for u, v in edges if u in closure and v in closure}
    parent = {v: u for u, v in edges}
    tmp = Path(tempfile.mkdtemp(prefix="verif-c15-"))
    try:
        with warnings.catch_warnings():
            warnings.simplefilter("ignore")
            if inp["fmt"] == "csv":
                _probe_csv(res, inp2, world, tracks, closure, parent, tmp)
            else:
                _probe_geff(res, inp2, world, tracks, closure, induced, tmp)
    except Exception as e:  # noqa: BLE001
        res.fail(f"exception:{type(e).__name__}", f"{inp['fmt']} subset export of imported tracks raised {e!r}")
    finally:
        shutil.rmtree(tmp, ignore_errors=True)
    res.tags.append("c15:imported_tracks")
    if any(n["id"] != n["seg_id"] for n in inp["nodes"]):
        res.tags.append("c15:imported_seg_id_differs")
    _classify(res, inp2, world, closure)
    return res


PARTS = [
    Part("csv", inputs("csv"), probe, quick=800, thorough=8000, shrink=False),
    Part("geff", inputs("geff"), probe, quick=500, thorough=6000, shrink=False),
    Part("csv_session", inputs("csv", session=True), probe, quick=300, thorough=3000, shrink=False),
    Part("geff_session", inputs("geff", session=True), probe, quick=200, thorough=2000, shrink=False),
    Part("geff_imported", imported_inputs("geff"), probe_imported, quick=250, thorough=2500, shrink=False),
    Part("csv_imported", imported_inputs("csv"), probe_imported, quick=250, thorough=2500, shrink=False),
]


def run_shard(ctx):
    pure.run_shard(ctx, PARTS)


def replay(obj, col):
    pure.replay(PARTS, obj, col)


def minimise(bucket, failure):
    return pure.minimise(PARTS, bucket, failure)
