"""C02 - undo/redo follow a never-forgetting linear timeline."""

from __future__ import annotations

import itertools

from .. import machine
from ..oracles import C02Oracle
from ..world import CUSTOM_NODE

ID = "C02"
MODE = "exhaustive enumeration + hypothesis"
RULE = (
    "(a) Exhaustive: every word of length L over {E1 = attribute update with a fresh value, E2 = "
    "add a fresh node (new track), E3 = swap predecessors of a fixed pair (nests 2 delete-edge + 2 "
    "add-edge user actions), [E4 = paint a fresh label (nests add-node), E5 = a reported stroke that "
    "changes nothing (eraser over background); segmentation fixture], U = "
    "undo, R = redo} is executed on a fresh fixture and checked after every letter, so every word "
    "of length <= L is covered as a prefix (quick: 5 letters L=7 on the plain fixture, 7 letters L=5 "
    "on the segmentation fixture; thorough: L=8 / L=6). (b) Sampled: Hypothesis walks with all "
    "user-action kinds, up to 60 steps, ~45% undo/redo. Oracle = reference timeline (list of "
    "canonical states + cursor): an edit after undos appends the undone stretch reversed, then the "
    "new state; undo/redo move the cursor and return False exactly at the ends, then change "
    "nothing (deep snapshot); after every call the canonical state == timeline[cursor]; at the end "
    "undo is repeated until the start of the timeline and must visit every entry. "
    "evaluations = executed letters/steps. Non-trivial = a word containing an edit made after >=1 "
    "undo that is followed by >=2 undos, or by a redo; distinct = distinct words (exhaustive part: "
    "distinct by construction)."
)
ASSUMPTIONS = ["exhaustive part: two fixed 5-node fixtures; sampled part: <= 10 nodes"]
REQUIRED_CLASSES = {t: ["edit_after_undo_then_deep_undo", "undo_exhausted", "redo_exhausted",
                        "exhaustive:plain", "exhaustive:seg"] for t in ("quick", "thorough")}

PLAIN = {
    "cfg": {"ndim": 3, "seg": False, "scale": None, "time_key": "time", "pos_key": "pos",
            "pos_mode": "single", "tracklet_key": None, "lineage_key": None, "route": "bare",
            "frames": 4, "optional": [], "shape": [8, 8]},
    "nodes": [
        {"id": 1, "t": 0, "parent": None, CUSTOM_NODE: 1.0, "pos": [1.0, 1.0]},
        {"id": 2, "t": 0, "parent": None, CUSTOM_NODE: 2.0, "pos": [5.0, 5.0]},
        {"id": 3, "t": 1, "parent": 1, CUSTOM_NODE: 3.0, "ew": 1, "pos": [1.0, 2.0]},
        {"id": 4, "t": 1, "parent": 2, CUSTOM_NODE: 4.0, "ew": 2, "pos": [5.0, 4.0]},
        {"id": 5, "t": 2, "parent": 3, CUSTOM_NODE: 5.0, "ew": 3, "pos": [2.0, 2.0]},
    ],
    "id_offsets": [0, 0],
}
SEG = {
    "cfg": {"ndim": 3, "seg": True, "scale": [1.0, 2.0, 2.0], "time_key": "t", "pos_key": "pos",
            "pos_mode": "single", "tracklet_key": None, "lineage_key": None, "route": "bare",
            "frames": 4, "optional": ["iou"], "shape": [8, 8], "seg_dtype": "int32"},
    "nodes": [
        {"id": 1, "t": 0, "parent": None, CUSTOM_NODE: 1.0, "boxes": [[[0, 0], [2, 2]]]},
        {"id": 2, "t": 0, "parent": None, CUSTOM_NODE: 2.0, "boxes": [[[4, 0], [6, 2]]]},
        {"id": 3, "t": 1, "parent": 1, CUSTOM_NODE: 3.0, "ew": 1, "boxes": [[[0, 1], [2, 3]]]},
        {"id": 4, "t": 1, "parent": 2, CUSTOM_NODE: 4.0, "ew": 2, "boxes": [[[4, 1], [6, 3]]]},
        {"id": 5, "t": 2, "parent": 3, CUSTOM_NODE: 5.0, "ew": 3, "boxes": [[[1, 1], [3, 3]]]},
    ],
    "id_offsets": [0, 0],
}


def letter_op(world, letter: str, k: int) -> dict:
    """Concrete op of a letter; ``k`` = number of edits issued so far (makes values fresh)."""
    tkey, time_key = world.tkey, world.time_key
    if letter == "U":
        return {"op": "undo"}
    if letter == "R":
        return {"op": "redo"}
    if letter == "1":
        return {"op": "attrs", "node": 5, "attrs": {CUSTOM_NODE: 100.0 + k}}
    if letter == "2":
        node = 50 + k
        attrs = {time_key: 3, tkey: 70 + k}
        pixels = None
        if world.cfg["seg"]:
            pixels = [[3], [k % 8], [(k // 8) % 8]]
        else:
            attrs["pos"] = [float(k % 8), 3.0]
        return {"op": "add_node", "node": node, "attrs": attrs, "pixels": pixels, "force": False}
    if letter == "3":
        return {"op": "swap", "nodes": [3, 4]}
    if letter == "4":
        return {"op": "paint", "time": 2, "pixels": [[7], [k % 8]], "value": 80 + k, "track_id": 90 + k,
                "force": False, "order": "asc"}
    if letter == "5":  # eraser over background: changes nothing, still one step
        return {"op": "paint", "time": 3, "pixels": [[7], [7]], "value": 0, "track_id": 1,
                "force": False, "order": "asc", "report_unchanged": True}
    raise AssertionError(letter)


def run_word(fixture, word: str, col, label=None) -> tuple[list, list]:
    walk = machine.Walk(fixture, C02Oracle, col)
    walk.oracle.label = label
    k = 0
    for ch in word:
        op = letter_op(walk.world, ch, k)
        if ch not in "UR":
            k += 1
        if not walk.step(op):
            break
    if not walk.failures and walk.aborted is None:
        walk.oracle.finish()
    return walk.failures, walk.world.trace


def _exhaustive(ctx, name, fixture, alphabet, length):
    col = ctx.col
    col.event(f"exhaustive:{name}", 0)
    total = len(alphabet) ** length
    for i, letters in enumerate(itertools.product(alphabet, repeat=length)):
        if i % ctx.nshards != ctx.shard:
            continue
        word = "".join(letters)
        col.case()
        failures, trace = run_word(fixture, word, col, label=(name, word))
        col.event(f"exhaustive:{name}")
        for bucket, msg in failures:
            col.fail(f"{bucket}", f"[exhaustive {name} word {word}] {msg}",
                     {"kind": "word", "fixture": name, "word": word[: len(trace)]}, size=len(trace))
        if len(col.samples) < 2:
            col.sample({"fixture": name, "word": word})
    col.extra.setdefault("exhaustive_parts", {})[name] = {
        "alphabet": "".join(alphabet), "length": length, "words": total}


TIERS = {
    "quick": {"plain": ("123UR", 7), "seg": ("12345UR", 5), "walks": (480, 45)},
    "thorough": {"plain": ("123UR", 8), "seg": ("12345UR", 6), "walks": (4800, 60)},
}


def run_shard(ctx):
    t = TIERS[ctx.tier]
    _exhaustive(ctx, "plain", PLAIN, *t["plain"])
    _exhaustive(ctx, "seg", SEG, *t["seg"])
    ctx.col.extra["exhaustive"] = True
    n, steps = t["walks"]
    machine.run_walks(ctx, C02Oracle, n_walks=ctx.share(n), steps=steps, profile="history",
                      cfg_kwargs={"allow_stray": True, "allow_default_feature": True})


def replay(obj, col):
    if obj.get("kind") == "word":
        fixture = PLAIN if obj["fixture"] == "plain" else SEG
        failures, trace = run_word(fixture, obj["word"], col)
        for b, m in failures:
            col.fail(b, m, obj)
        return
    machine.replay_trace(obj, C02Oracle, col)


def minimise(bucket, failure):
    from ..ddmin import ddmin
    from ..runner import Collector

    obj = failure["replay"]
    if obj.get("kind") != "word":
        return machine.minimise_trace(bucket, failure, C02Oracle)
    fixture = PLAIN if obj["fixture"] == "plain" else SEG
    msg = {"m": failure["message"]}

    def fails(letters):
        fs, _ = run_word(fixture, "".join(letters), Collector())
        for b, m in fs:
            if b == bucket:
                msg["m"] = m
                return True
        return False

    word = list(obj["word"])
    if fails(word):
        word = ddmin(word, fails, budget=300)
        fails(word)
    return {"message": f"[word {''.join(word)}] {msg['m']}",
            "replay": {"kind": "word", "fixture": obj["fixture"], "word": "".join(word)}, "size": len(word)}
