"""C10 - feature switching is history-independent; managed features are protected."""
from ..oracles import C10Oracle
from ._machine_prop import make

ID = "C10"
RULE = (
    "Walks mixing enable_features / disable_features (random subsets of the optional keys, repeated, "
    "incl. unknown keys at any list position) with edits, undo and redo, with/without segmentation "
    "and with/without a pre-built registry; also enable_features(recompute=False), after which the "
    "values of those keys are not asserted until the next enable with recomputation. Model = set of enabled keys. After every step: active "
    "annotator keys == model; registry keys == static + model; every enabled measurement equals its "
    "reference (as C08/C09) - in particular right after an enable with recomputation; values of "
    "disabled managed keys on surviving nodes/edges are unchanged by edits; unknown key -> KeyError "
    "and full snapshot unchanged; attribute updates naming time or any managed key (enabled or not) "
    "raise and change nothing. At the end of a walk the core keys (track id, lineage id, position, "
    "area) are disabled and re-enabled and must be recomputed correctly. Non-trivial = enable after "
    ">=1 state-changing edit since the key was last computed, a protected-attribute offer, or an "
    "unknown key; distinct by (keys, edits since, config)."
)
ASSUMPTIONS = ["core id features are toggled only at the end of a walk (user actions are undefined without track ids)"]
REQUIRED_CLASSES = {t: ["enable_after_edits", "unknown_key:enable", "unknown_key:disable",
                        "protected_attr:enabled", "protected_attr:disabled", "edit_with_disabled_feature",
                        "core_toggle", "cfg:route=featuredict", "cfg:noseg",
                        "recompute_after_enable_without_recompute", "core_disabled_mid_session:tracklet",
                        "core_reenabled_mid_session"] for t in ("quick", "thorough")}
run_shard, replay, minimise = make(C10Oracle, quick=(3200, 40), thorough=(6400, 60), profile="features",
                                   cfg_kwargs={"allow_optional": True, "allow_partial_registry": True, "allow_stray": True}, refusal_bias=0.15)
