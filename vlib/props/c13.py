"""C13 - relabelling on import moves each mask to its node id pixel-exactly."""

from __future__ import annotations

import warnings

import networkx as nx
import numpy as np

from .. import pure
from ..hyp import st
from ..pure import Part, ProbeResult

ID = "C13"
RULE = (
    "Hypothesis @given: label images (2D+t / 3D+t) whose label values are drawn from a small pool "
    "(so values are reused across frames), a listed subset of the detections (the rest are "
    "unlisted labels) and an injective assignment (time, seg id) -> node id in one of the modes "
    "identity / permutation of the label values (cycles) / ids drawn from the label pool "
    "(collisions) / fresh, optionally containing id 0. Two entry points: relabel_segmentation(...) "
    "on numpy and dask input (one chunk, or 1-4 frames per chunk incl. a shorter last chunk, halved "
    "spatial chunks), tracks_from_df(df with seg_id, seg as numpy / dask / zarr store path) with computed or given "
    "positions, and the builder with the segmentation given as a directory of per-frame TIFFs "
    "(9-13 frames, padded or unpadded numbers). Oracle: expected = zeros; expected[t][src[t]==seg_id] = node_id (+1 for all ids "
    "when 0 is an id); result == expected element-wise; graph nodes and edges shifted the same "
    "way; input array unchanged. Non-trivial = assignment with a collision (a node id equals a "
    "label value that belongs to another node or to an unlisted label in some frame), a reused "
    "label value, an unlisted label or id 0; distinct by (mode, collision pattern, has0, #unlisted)."
)
ASSUMPTIONS = ["seg ids are positive; every listed (time, seg id) occurs in the image",
               "node ids <= ~10**6 (skimage.regionprops allocates per label value; ids near 2**31 exhaust memory)",
               "dtype of the relabelled array is unconstrained"]
REQUIRED_CLASSES = {t: ["c13:id0", "c13:unlisted", "c13:collision", "c13:reused_label", "c13:identity",
                        "c13:ids_exceed_label_dtype", "c13:tiff_dir_unpadded_over_10_frames",
                        "part:from_df", "c13:uneven_time_chunks", "c13:zarr_source"] for t in ("quick", "thorough")}

POOL = [1, 2, 3, 4, 5, 6, 9, 200]


@st.composite
def inputs(draw, with_df=False):
    spatial = draw(st.sampled_from([(5, 5), (4, 6), (3, 4, 4)]))
    nt = draw(st.integers(1, 4)) if draw(st.integers(0, 3)) else draw(st.integers(5, 7))
    frames = []
    dets = []
    for t in range(nt):
        k = draw(st.integers(0 if nt > 1 else 1, 4))
        labs = draw(st.lists(st.sampled_from(POOL), min_size=k, max_size=k, unique=True))
        occ = np.zeros(spatial, dtype=bool)
        fr = []
        for lab in labs:
            lo = [draw(st.integers(0, s - 1)) for s in spatial]
            hi = [min(s, a + draw(st.integers(1, 2))) for a, s in zip(lo, spatial)]
            sl = tuple(slice(a, b) for a, b in zip(lo, hi))
            if occ[sl].any():
                continue
            occ[sl] = True
            fr.append({"label": lab, "box": [lo, hi]})
            dets.append((t, lab))
        frames.append(fr)
    listed = [d for d in dets if draw(st.integers(0, 4)) != 0]
    if not listed and dets:
        listed = [dets[0]]
    mode = draw(st.sampled_from(["identity", "permute", "collide", "fresh"]))
    n = len(listed)
    labels = [lab for _, lab in listed]
    if mode == "identity" and len(set(labels)) == n:
        ids = list(labels)
    elif mode == "permute" and len(set(labels)) == n and n > 1:
        ids = draw(st.permutations(labels))
    elif mode == "collide" or mode in ("identity", "permute"):
        cand = sorted(set(POOL) | set(range(7, 24)))
        ids = draw(st.lists(st.sampled_from(cand), min_size=n, max_size=n, unique=True))
        mode = "collide"
    else:
        # ids far above the label values - also above what a narrow label dtype can hold
        base = draw(st.sampled_from([400, 400, 65600, 1_000_000]))
        ids = draw(st.lists(st.integers(base, base + 50), min_size=n, max_size=n, unique=True))
    ids = list(ids)
    if ids and draw(st.integers(0, 3)) == 0 and 0 not in ids:
        ids[draw(st.integers(0, n - 1))] = 0
    nodes = []
    for (t, lab), i in zip(listed, ids):
        cands = [m for m in nodes if m["t"] < t and m["children"] < 2]
        parent = None
        if cands and draw(st.booleans()):
            p = cands[draw(st.integers(0, len(cands) - 1))]
            p["children"] += 1
            parent = p["id"]
        nodes.append({"id": i, "t": t, "seg_id": lab, "parent": parent, "children": 0})
    for m in nodes:
        m.pop("children")
    out = {"spatial": list(spatial), "frames": frames, "nodes": nodes, "mode": mode,
           "dtype": draw(st.sampled_from(["int32", "uint16", "int64", "uint64", "uint8"])),
           "dask": draw(st.booleans()),
           # chunking of a lazily loaded source: frames per chunk (0 = one chunk), spatial halves
           "tchunk": draw(st.sampled_from([0, 0, 1, 2, 3, 4])), "schunk": draw(st.booleans()),
           "zarr": draw(st.integers(0, 3)) == 0,
           # non-native byte order (as some writers store label images); same values
           "big_endian": draw(st.integers(0, 4)) == 0}
    if with_df:
        out["with_pos"] = draw(st.booleans())
        out["scale"] = draw(st.sampled_from([None, [1.0, 1.0, 1.0, 1.0][: len(spatial) + 1],
                                             [1.0, 2.0, 0.5, 2.0][: len(spatial) + 1]]))
        out["shuffle"] = draw(st.integers(0, 5))
        out["recompute_area"] = draw(st.booleans())
        out["seg_id_float"] = draw(st.integers(0, 3)) == 0  # the label column read as 7.0, 12.0, ...
    return out


def _chunks(inp, seg):
    tc = inp.get("tchunk") or seg.shape[0]
    sp = [max(1, (s + 1) // 2) if inp.get("schunk") else s for s in seg.shape[1:]]
    return (min(tc, seg.shape[0]), *sp)


def _build(inp):
    spatial = tuple(inp["spatial"])
    dt = np.dtype(inp["dtype"])
    if inp.get("big_endian") and dt.itemsize > 1:
        dt = dt.newbyteorder(">")
    seg = np.zeros((len(inp["frames"]), *spatial), dtype=dt)
    for t, fr in enumerate(inp["frames"]):
        for d in fr:
            seg[t][tuple(slice(a, b) for a, b in zip(*d["box"]))] = d["label"]
    return seg


def _expected(inp, src):
    off = 1 if any(n["id"] == 0 for n in inp["nodes"]) else 0
    exp = np.zeros(src.shape, dtype=np.uint64)
    for n in inp["nodes"]:
        exp[n["t"]][src[n["t"]] == n["seg_id"]] = n["id"] + off
    return exp, off


def _classify(res, inp, src):
    if src.dtype.byteorder == ">":
        res.tags.append("c13:big_endian_source")
    nodes = inp["nodes"]
    listed = {(n["t"], n["seg_id"]) for n in nodes}
    all_dets = {(t, d["label"]) for t, fr in enumerate(inp["frames"]) for d in fr}
    unlisted = all_dets - listed
    labels_by_owner = {}
    for (t, lab) in all_dets:
        labels_by_owner.setdefault(lab, set()).add(t)
    collision = False
    for n in nodes:
        for (t, lab) in all_dets:
            if lab == n["id"] and (t, lab) != (n["t"], n["seg_id"]):
                collision = True
    reused = any(len(ts) > 1 for ts in labels_by_owner.values())
    has0 = any(n["id"] == 0 for n in nodes)
    if has0:
        res.tags.append("c13:id0")
    if unlisted:
        res.tags.append("c13:unlisted")
    if collision:
        res.tags.append("c13:collision")
    if reused:
        res.tags.append("c13:reused_label")
    if inp["mode"] == "identity":
        res.tags.append("c13:identity")
    if inp["dtype"] in ("uint8", "uint16") and any(n["id"] > np.iinfo(inp["dtype"]).max for n in nodes):
        res.tags.append("c13:ids_exceed_label_dtype")
    if has0 or unlisted or collision or reused:
        res.nontrivial = (inp["mode"], collision, reused, has0, min(len(unlisted), 3), len(nodes), len(inp["spatial"]))


def _diff(got, exp):
    idx = np.argwhere(np.asarray(got).astype(np.int64) != exp.astype(np.int64))
    if len(idx) == 0:
        return None
    first = tuple(idx[0].tolist())
    return f"{len(idx)} pixels differ, first at {first}: got {np.asarray(got)[first]} expected {exp[first]}"


def probe_relabel(inp) -> ProbeResult:
    import dask.array as da

    from funtracks.import_export._import_segmentation import relabel_segmentation

    res = ProbeResult()
    if not inp["nodes"]:
        res.discarded = "no_nodes"
        return res
    seg = _build(inp)
    src = seg.copy()
    exp, off = _expected(inp, src)
    g = nx.DiGraph()
    for n in inp["nodes"]:
        g.add_node(n["id"], time=n["t"], seg_id=n["seg_id"])
    for n in inp["nodes"]:
        if n["parent"] is not None:
            g.add_edge(n["parent"], n["id"])
    edges = {(u + off, v + off) for u, v in g.edges}
    arr = da.from_array(seg, chunks=_chunks(inp, seg)) if inp["dask"] else seg
    if inp["dask"] and inp.get("tchunk") and seg.shape[0] % inp["tchunk"]:
        res.tags.append("c13:uneven_time_chunks")
    try:
        out = relabel_segmentation(arr, g, [n["id"] for n in inp["nodes"]],
                                   [n["seg_id"] for n in inp["nodes"]], [n["t"] for n in inp["nodes"]])
    except Exception as e:  # noqa: BLE001
        res.fail(f"exception:{type(e).__name__}", f"relabel_segmentation raised {e!r}")
        return res
    d = _diff(out, exp) if np.asarray(out).shape == exp.shape else "shape changed"
    if d:
        res.fail("pixels:" + inp["mode"], f"mode {inp['mode']}: {d}")
    if not np.array_equal(seg, src):
        res.fail("input_modified", "the source array was modified")
    if set(g.nodes) != {n["id"] + off for n in inp["nodes"]}:
        res.fail("graph_nodes", f"graph nodes {sorted(g.nodes)} != ids shifted by {off}")
    elif set(g.edges) != edges:
        res.fail("graph_edges", f"graph edges {sorted(g.edges)} != {sorted(edges)}")
    _classify(res, inp, src)
    return res


def probe_from_df(inp) -> ProbeResult:
    import pandas as pd

    from funtracks.import_export import tracks_from_df

    res = ProbeResult()
    if not inp["nodes"]:
        res.discarded = "no_nodes"
        return res
    seg = _build(inp)
    src = seg.copy()
    exp, off = _expected(inp, src)
    nsp = len(inp["spatial"])
    axes = ["z", "y", "x"][-nsp:]
    scale = inp["scale"]
    rows = []
    for n in inp["nodes"]:
        row = {"t": n["t"], "id": n["id"], "parent_id": -1 if n["parent"] is None else n["parent"],
               "seg_id": n["seg_id"]}
        if inp["with_pos"]:
            idx = np.nonzero(src[n["t"]] == n["seg_id"])
            for a, name, k in zip(idx, axes, range(nsp)):
                row[name] = float(a.mean()) * (1.0 if scale is None else scale[k + 1])
        rows.append(row)
    k = inp["shuffle"] % len(rows)
    rows = rows[k:] + rows[:k]
    df = pd.DataFrame(rows)
    if inp.get("seg_id_float"):
        df["seg_id"] = df["seg_id"].astype(float)
        res.tags.append("c13:seg_id_float_column")
    nm = {"time": "t", "id": "id", "parent_id": "parent_id", "seg_id": "seg_id"}
    if inp["with_pos"]:
        nm["pos"] = axes
    source = seg
    tmpd = None
    if inp.get("dask"):
        import dask.array as da

        source = da.from_array(seg, chunks=_chunks(inp, seg))
        if inp.get("zarr"):
            # a zarr store on disk, opened lazily by the importer
            import shutil
            import tempfile
            from pathlib import Path

            import zarr

            tmpd = Path(tempfile.mkdtemp(prefix="verif-c13-"))
            z = zarr.open(str(tmpd / "seg.zarr"), mode="w", shape=seg.shape, dtype=seg.dtype, chunks=_chunks(inp, seg))
            z[:] = seg
            source = tmpd / "seg.zarr"
            res.tags.append("c13:zarr_source")
        if inp.get("tchunk") and seg.shape[0] % inp["tchunk"]:
            res.tags.append("c13:uneven_time_chunks")
    try:
        with warnings.catch_warnings():
            warnings.simplefilter("ignore")
            tracks = tracks_from_df(df, source, scale=None if scale is None else list(scale), node_name_map=nm,
                                    features={"Area": "Recompute"} if inp.get("recompute_area") else None)
    except Exception as e:  # noqa: BLE001
        res.fail(f"exception:{type(e).__name__}", f"tracks_from_df raised {e!r} (mode {inp['mode']})")
        return res
    finally:
        if tmpd is not None:
            shutil.rmtree(tmpd, ignore_errors=True)
    got = tracks.segmentation
    d = _diff(got, exp) if np.asarray(got).shape == exp.shape else "shape changed"
    if d:
        res.fail("pixels:" + inp["mode"], f"mode {inp['mode']}: {d}")
    if not np.array_equal(seg, src):
        res.fail("input_modified", "the source array was modified")
    ids = {n["id"] + off for n in inp["nodes"]}
    if {int(x) for x in tracks.graph.nodes} != ids:
        res.fail("graph_nodes", f"nodes {sorted(tracks.graph.nodes)} != {sorted(ids)}")
    else:
        edges = {(n["parent"] + off, n["id"] + off) for n in inp["nodes"] if n["parent"] is not None}
        if {(int(u), int(v)) for u, v in tracks.graph.edges} != edges:
            res.fail("graph_edges", f"edges {sorted(tracks.graph.edges)} != {sorted(edges)}")
        else:
            vox = 1.0 if scale is None else float(np.prod(scale[1:]))
            for n in inp["nodes"]:
                if int(tracks.graph.nodes[n["id"] + off]["time"]) != n["t"]:
                    res.fail("node_time", f"node {n['id'] + off} time mismatch")
                cnt = int((src[n["t"]] == n["seg_id"]).sum())
                a = tracks.graph.nodes[n["id"] + off].get("area")
                if a is None or abs(float(a) - cnt * vox) > 1e-9:
                    res.fail("node_area", f"node {n['id'] + off}: area {a} != {cnt} px * {vox}")
    _classify(res, inp, src)
    return res


# ---- segmentation given as a directory of per-frame TIFF files ---------------------------------
@st.composite
def tiff_inputs(draw):
    nt = draw(st.integers(9, 13))
    spatial = draw(st.sampled_from([(3, 4), (2, 3, 3)]))
    frames, nodes = [], []
    for t in range(nt):
        lab = draw(st.sampled_from([1, 2, 3]))
        lo = [draw(st.integers(0, s - 1)) for s in spatial]
        hi = [min(s, a + 1) for a, s in zip(lo, spatial)]
        frames.append([{"label": lab, "box": [lo, hi]}])
        nodes.append({"id": 400 + 2 * t, "t": t, "seg_id": lab, "parent": None if t == 0 or draw(st.booleans()) else 400 + 2 * (t - 1)})
    return {"spatial": list(spatial), "frames": frames, "nodes": nodes, "mode": "tiff_dir", "dtype": "uint16",
            "pad": draw(st.sampled_from([0, 0, 2, 3])), "prefix": draw(st.sampled_from(["frame_", "t", "seg"]))}


def probe_tiff_dir(inp) -> ProbeResult:
    import shutil
    import tempfile
    from pathlib import Path

    import pandas as pd
    import tifffile

    from funtracks.import_export import CSVTracksBuilder

    res = ProbeResult()
    seg = _build(inp)
    src = seg.copy()
    exp, off = _expected(inp, src)
    rows = [{"t": n["t"], "id": n["id"], "parent_id": -1 if n["parent"] is None else n["parent"], "seg_id": n["seg_id"]}
            for n in inp["nodes"]]
    tmp = Path(tempfile.mkdtemp(prefix="verif-c13-"))
    try:
        d = tmp / "seg"
        d.mkdir()
        for t in range(seg.shape[0]):
            name = f"{inp['prefix']}{t:0{inp['pad']}d}.tif" if inp["pad"] else f"{inp['prefix']}{t}.tif"
            tifffile.imwrite(d / name, seg[t])
        b = CSVTracksBuilder()
        df = pd.DataFrame(rows)
        b.read_header(df)
        b.node_name_map = {"time": "t", "id": "id", "parent_id": "parent_id", "seg_id": "seg_id"}
        with warnings.catch_warnings():
            warnings.simplefilter("ignore")
            tracks = b.build(df, segmentation=d)
    except Exception as e:  # noqa: BLE001
        res.fail(f"exception:{type(e).__name__}", f"import with a TIFF-directory segmentation raised {e!r}")
        return res
    finally:
        shutil.rmtree(tmp, ignore_errors=True)
    got = np.asarray(tracks.segmentation)
    dmsg = _diff(got, exp) if got.shape == exp.shape else f"shape {got.shape} != {exp.shape}"
    if dmsg:
        res.fail("pixels:tiff_dir", f"{seg.shape[0]} frames, pad={inp['pad']}: {dmsg}")
    res.tags.append("c13:tiff_dir")
    if seg.shape[0] > 10 and not inp["pad"]:
        res.tags.append("c13:tiff_dir_unpadded_over_10_frames")
    res.nontrivial = ("tiff_dir", seg.shape[0], inp["pad"], tuple(n["seg_id"] for n in inp["nodes"]))
    return res


PARTS = [
    Part("relabel", inputs(), probe_relabel, quick=6000, thorough=60000),
    Part("from_df", inputs(with_df=True), probe_from_df, quick=1500, thorough=20000),
    Part("tiff_dir", tiff_inputs(), probe_tiff_dir, quick=160, thorough=1600, shrink=False),
]


def run_shard(ctx):
    pure.run_shard(ctx, PARTS)


def replay(obj, col):
    pure.replay(PARTS, obj, col)


def minimise(bucket, failure):
    return pure.minimise(PARTS, bucket, failure)
