"""C18 - candidate graph = all detections plus all near pairs in consecutive frames."""

from __future__ import annotations

from fractions import Fraction

import numpy as np

from .. import pure, refs
from ..hyp import st
from ..pure import Part, ProbeResult

ID = "C18"
RULE = (
    "Hypothesis @given. Part 'seg': label arrays (2D+t, 3D+t) with 0-4 box detections per frame "
    "(labels unique across time, arbitrary values), empty frames at the start / middle / end, "
    "dyadic scale or None, IoU on/off. Part 'points': point lists with dyadic coordinates, frame "
    "gaps, unsorted rows. max distance drawn from {0, dyadic k/4, an occurring distance, huge}. "
    "Oracle (brute force over all ordered pairs, exact rational arithmetic): nodes == detections "
    "with time, scaled centroid, scaled area; edge (a,b) <=> time(b) == time(a)+1 and d(a,b) <= r, "
    "decided by comparing d^2 and r^2 as Fractions; a pair whose |d^2-r^2| <= 1e-9 is asserted only "
    "when it is an exact tie of exactly representable numbers (inclusive), else don't-care; "
    "requested IoU == |A and B|/|A or B|. Point lists: the graph of a second call on the same "
    "float64 array object is judged against the same point list (a sweep re-uses the array). Part "
    "'multiseg': 1-3 hypothesis stacks (h,t,..) with labels unique over hypotheses and time, combined "
    "as a multi-hypothesis caller does (nodes_from_segmentation per hypothesis, add_cand_edges, "
    "add_iou(multiseg=True)); every edge's IoU == overlap of the two masks, also across hypotheses "
    "in both orders. Non-trivial = an empty frame between non-empty ones, or "
    "a pair at distance exactly r; distinct by (frame occupancy pattern, ndim, tie, r class)."
)
ASSUMPTIONS = ["scale[0] == 1 (documented dummy for the time axis)",
               "labels are unique across time (documented precondition of nodes_from_segmentation)"]
REQUIRED_CLASSES = {t: ["c18:gap_between_nonempty", "c18:exact_tie", "c18:all_empty", "c18:iou",
                        "part:points", "c18:multiseg_later_to_earlier_hypothesis", "c18:frame_without_background"] for t in ("quick", "thorough")}

DY = [0.5, 1.0, 2.0, 0.25, 4.0]


def _boxes_nonoverlapping(draw, spatial, k):
    occ = np.zeros(spatial, dtype=bool)
    out = []
    for _ in range(k):
        lo = [draw(st.integers(0, s - 1)) for s in spatial]
        hi = [min(s, a + draw(st.integers(1, 2))) for a, s in zip(lo, spatial)]
        sl = tuple(slice(a, b) for a, b in zip(lo, hi))
        if occ[sl].any():
            continue
        occ[sl] = True
        out.append([lo, hi])
    return out


@st.composite
def seg_inputs(draw):
    spatial = draw(st.sampled_from([(6, 6), (5, 7), (3, 4, 4)]))
    nt = draw(st.integers(1, 6))
    pattern = draw(st.sampled_from(["any", "any", "gap", "lead_empty", "all_empty"]))
    frames = []
    dtype = draw(st.sampled_from(["int32", "uint16", "int64", "uint64", "uint8"]))
    # label values up to what the dtype can hold (large labels in narrow dtypes included)
    lab = draw(st.integers(1, 30)) + draw(st.sampled_from(
        {"uint8": [0, 100], "uint16": [0, 250, 40000]}.get(dtype, [0, 250, 40000, 100000])))
    for t in range(nt):
        k = draw(st.integers(0, 4))
        if pattern == "all_empty":
            k = 0
        if pattern == "gap" and nt >= 3 and t == nt // 2:
            k = 0
        if pattern == "gap" and nt >= 3 and t in (0, nt - 1):
            k = max(k, 1)
        if pattern == "lead_empty" and t == 0:
            k = 0
        dets = []
        if k and pattern == "any" and draw(st.integers(0, 5)) == 0:
            # a confluent frame: 1-3 slabs tile it completely, no background pixel is left
            cuts = sorted(set(draw(st.lists(st.integers(1, spatial[0] - 1), min_size=0, max_size=2))))
            lo0 = [0, *cuts]
            hi0 = [*cuts, spatial[0]]
            for a, b in zip(lo0, hi0):
                lab += draw(st.integers(1, 5)) if dtype != "uint8" else 1
                dets.append({"label": lab, "box": [[a, *[0] * (len(spatial) - 1)], [b, *spatial[1:]]]})
            frames.append(dets)
            continue
        for box in _boxes_nonoverlapping(draw, spatial, k):
            lab += draw(st.integers(1, 5)) if dtype != "uint8" else 1
            dets.append({"label": lab, "box": box})
        frames.append(dets)
    scale = draw(st.sampled_from([None, "iso", "aniso"]))
    if scale == "iso":
        s = draw(st.sampled_from(DY))
        scale = [1.0] + [s] * len(spatial)
    elif scale == "aniso":
        scale = [1.0] + [draw(st.sampled_from(DY)) for _ in spatial]
    rmode = draw(st.sampled_from(["zero", "dyadic", "occurring", "huge"]))
    r = {"zero": 0.0, "huge": 1e6}.get(rmode)
    if rmode == "dyadic":
        r = draw(st.integers(0, 40)) / 4.0
    return {"spatial": list(spatial), "frames": frames, "scale": scale, "rmode": rmode, "r": r,
            "pick": draw(st.integers(0, 10**6)), "iou": draw(st.booleans()),
            "dtype": dtype}


@st.composite
def multiseg_inputs(draw):
    """Several hypothesis segmentations (h, t, y, x) with labels unique over hypotheses and time."""
    spatial = draw(st.sampled_from([(6, 6), (5, 7), (3, 4, 4)]))
    nh = draw(st.sampled_from([1, 2, 2, 3]))
    nt = draw(st.integers(2, 4))
    dtype = draw(st.sampled_from(["int32", "uint16", "int64", "uint64"]))
    lab = draw(st.sampled_from([0, 0, 250, 40000]))
    hyps = []
    for _ in range(nh):
        frames = []
        for _t in range(nt):
            dets = []
            for box in _boxes_nonoverlapping(draw, spatial, draw(st.integers(0, 3))):
                lab += draw(st.integers(1, 3))
                dets.append({"label": lab, "box": box})
            frames.append(dets)
        hyps.append(frames)
    rmode = draw(st.sampled_from(["dyadic", "huge", "huge"]))
    r = 1e6 if rmode == "huge" else draw(st.integers(4, 40)) / 4.0
    return {"spatial": list(spatial), "hyps": hyps, "r": r, "rmode": rmode, "dtype": dtype,
            "given_frame_dict": draw(st.booleans())}


@st.composite
def point_inputs(draw):
    nsp = draw(st.sampled_from([2, 3]))
    nt = draw(st.integers(1, 6))
    times = draw(st.lists(st.integers(0, nt + 1), min_size=0, max_size=10))
    int_points = draw(st.integers(0, 3)) == 0  # pixel / voxel coordinates in an integer array
    if int_points:
        pts = [[t] + [draw(st.integers(0, 6)) for _ in range(nsp)] for t in times]
    else:
        pts = [[t] + [draw(st.integers(0, 24)) / 4.0 for _ in range(nsp)] for t in times]
    scale = draw(st.sampled_from([None, "aniso"]))
    if scale == "aniso":
        scale = [1.0] + [draw(st.sampled_from(DY)) for _ in range(nsp)]
    rmode = draw(st.sampled_from(["zero", "dyadic", "occurring", "huge"]))
    r = {"zero": 0.0, "huge": 1e6}.get(rmode)
    if rmode == "dyadic":
        r = draw(st.integers(0, 40)) / 4.0
    return {"points": pts, "nsp": nsp, "scale": scale, "rmode": rmode, "r": r,
            "pick": draw(st.integers(0, 10**6)), "int_points": int_points}


# ----------------------------------------------------------------------------------------
def _reference_edges(nodes: dict, r: float, exact: bool):
    """nodes: id -> (time, [Fraction coords]). Returns (must, may) edge sets."""
    r2 = Fraction(r) ** 2
    must, may, tie = set(), set(), False
    for a, (ta, pa) in nodes.items():
        for b, (tb, pb) in nodes.items():
            if tb != ta + 1:
                continue
            d2 = sum((x - y) ** 2 for x, y in zip(pa, pb))
            if d2 == r2:
                tie = True
                if exact:
                    must.add((a, b))
                else:
                    may.add((a, b))
            elif abs(d2 - r2) <= Fraction(1, 10**9) * max(1, r2):
                may.add((a, b))
            elif d2 < r2:
                must.add((a, b))
    return must, may, tie


def _occurring_r(nodes: dict, pick: int) -> float:
    ds = sorted({float(sum((x - y) ** 2 for x, y in zip(pa, pb))) ** 0.5
                 for a, (ta, pa) in nodes.items() for b, (tb, pb) in nodes.items() if tb == ta + 1})
    if not ds:
        return 1.0
    return ds[pick % len(ds)]


def _dyadic(fr: Fraction) -> bool:
    d = fr.denominator
    return d & (d - 1) == 0 and d <= 2**20


def _compare(res, graph, nodes, r, exact, what):
    got_nodes = {n if not isinstance(n, np.generic) else n.item() for n in graph.nodes}
    if got_nodes != set(nodes):
        res.fail("node_set", f"{what}: nodes {sorted(got_nodes)} != detections {sorted(nodes)}")
        return False
    must, may, tie = _reference_edges(nodes, r, exact)
    got = {(u if not isinstance(u, np.generic) else u.item(), v if not isinstance(v, np.generic) else v.item())
           for u, v in graph.edges}
    missing = must - got
    extra = got - must - may
    if missing:
        e = sorted(missing)[0]
        res.fail("edge_missing" + (":after_gap" if _after_gap(nodes, e) else ""),
                 f"{what}: r={r}: near pairs in consecutive frames without edge: {sorted(missing)[:4]}")
    if extra:
        e = sorted(extra)[0]
        ta, tb = nodes[e[0]][0], nodes[e[1]][0]
        kind = "across_gap" if tb - ta > 1 else ("not_next_frame" if tb != ta + 1 else "too_far")
        res.fail(f"edge_extra:{kind}", f"{what}: r={r}: edges that are not near consecutive-frame pairs: {sorted(extra)[:4]} "
                                       f"(times {ta}->{tb})")
    return tie


def _after_gap(nodes, e):
    ta = nodes[e[0]][0]
    times = {t for t, _ in nodes.values()}
    return any(t < ta and (t + 1) not in times for t in times)


def _pattern(times_present, nt):
    return tuple(1 if t in times_present else 0 for t in range(nt))


def probe_seg(inp) -> ProbeResult:
    from funtracks.candidate_graph import compute_graph_from_seg

    res = ProbeResult()
    spatial = tuple(inp["spatial"])
    nt = len(inp["frames"])
    seg = np.zeros((nt, *spatial), dtype=inp["dtype"])
    scale = inp["scale"]
    fs = [Fraction(1)] * len(spatial) if scale is None else [Fraction(x) for x in scale[1:]]
    nodes = {}
    masks = {}
    for t, dets in enumerate(inp["frames"]):
        for d in dets:
            lo, hi = d["box"]
            sl = tuple(slice(a, b) for a, b in zip(lo, hi))
            seg[t][sl] = d["label"]
    for t, dets in enumerate(inp["frames"]):
        for d in dets:
            m = seg[t] == d["label"]
            idx = np.nonzero(m)
            cnt = len(idx[0])
            nodes[d["label"]] = (t, [Fraction(int(a.sum()), cnt) * f for a, f in zip(idx, fs)])
            masks[d["label"]] = (t, m, cnt)
    r = inp["r"] if inp["r"] is not None else _occurring_r(nodes, inp["pick"])
    exact = all(_dyadic(c) for _, p in nodes.values() for c in p) and _dyadic(Fraction(r))
    src = seg.copy()
    if any((seg[t] != 0).all() for t in range(nt)):
        res.tags.append("c18:frame_without_background")
    try:
        g = compute_graph_from_seg(seg, r, iou=inp["iou"], scale=None if scale is None else list(scale))
    except Exception as e:  # noqa: BLE001 - every label array in the domain must be handled
        res.fail(f"exception:{type(e).__name__}" + (":all_empty" if not nodes else ""),
                 f"compute_graph_from_seg raised {e!r} (frames with detections: {sorted({t for t, _ in nodes.values()})} of {nt})")
        return res
    if not np.array_equal(seg, src):
        res.fail("input_modified", "segmentation modified")
    tie = _compare(res, g, nodes, r, exact, "seg")
    if tie is False and res.failures:
        return res
    vox = 1.0
    for f in fs:
        vox *= float(f)
    for n, (t, p) in nodes.items():
        a = g.nodes[n]
        if int(a.get("time", -1)) != t:
            res.fail("node_time", f"node {n}: time {a.get('time')} != {t}")
        if not refs.close(list(a.get("pos", [])), [float(x) for x in p]):
            res.fail("node_pos", f"node {n}: pos {a.get('pos')} != scaled centroid {[float(x) for x in p]}")
        if not refs.close(a.get("area"), masks[n][2] * vox):
            res.fail("node_area", f"node {n}: area {a.get('area')} != {masks[n][2] * vox}")
    if inp["iou"]:
        res.tags.append("c18:iou")
        for u, v in g.edges:
            if u in masks and v in masks:
                ref = refs.iou(masks[u][1], masks[v][1])
                if not refs.close(g.edges[u, v].get("iou"), float(ref)):
                    res.fail("edge_iou", f"edge ({u},{v}): iou {g.edges[u, v].get('iou')} != {float(ref)}")
    _classify(res, {t for t, _ in nodes.values()}, nt, tie, inp, len(spatial), bool(nodes))
    return res


def probe_points(inp) -> ProbeResult:
    from funtracks.candidate_graph import compute_graph_from_points_list

    res = ProbeResult()
    pts = inp["points"]
    scale = inp["scale"]
    nsp = inp["nsp"]
    fs = [Fraction(1)] * nsp if scale is None else [Fraction(x) for x in scale[1:]]
    nodes = {i: (int(p[0]), [Fraction(c) * f for c, f in zip(p[1:], fs)]) for i, p in enumerate(pts)}
    r = inp["r"] if inp["r"] is not None else _occurring_r(nodes, inp["pick"])
    exact = _dyadic(Fraction(r))
    arr = np.array(pts, dtype=np.int64 if inp.get("int_points") else float).reshape((len(pts), nsp + 1))
    if inp.get("int_points") and scale is not None and any(float(x) != int(x) for x in scale):
        res.tags.append("c18:integer_points_fractional_scale")
    try:
        g = compute_graph_from_points_list(arr, r, scale=None if scale is None else list(scale))
    except Exception as e:  # noqa: BLE001
        res.fail(f"exception:{type(e).__name__}" + (":all_empty" if not pts else ""),
                 f"compute_graph_from_points_list raised {e!r} for {len(pts)} points")
        return res
    tie = _compare(res, g, nodes, r, exact, "points")
    if not res.failures:
        for n, (t, p) in nodes.items():
            a = g.nodes[n]
            if float(a.get("time", -1)) != t or not refs.close(list(a.get("pos", [])), [float(x) for x in p]):
                res.fail("node_attrs", f"point {n}: time/pos {a.get('time')}/{a.get('pos')} != {t}/{[float(x) for x in p]}")
    if not res.failures and pts:
        # a sweep re-uses the caller's array: a second graph from the same array object is
        # judged against the same point list
        res2 = ProbeResult()
        try:
            g2 = compute_graph_from_points_list(arr, r, scale=None if scale is None else list(scale))
            _compare(res2, g2, nodes, r, exact, "points")
            if not res2.failures:
                for n, (t, p) in nodes.items():
                    a = g2.nodes[n]
                    if float(a.get("time", -1)) != t or not refs.close(list(a.get("pos", [])), [float(x) for x in p]):
                        res2.fail("node_attrs", f"point {n}: time/pos {a.get('time')}/{a.get('pos')} != {t}/{[float(x) for x in p]}")
        except Exception as e:  # noqa: BLE001
            res2.fail(f"exception:{type(e).__name__}", f"raised {e!r}")
        for b, m in res2.failures.items():
            res.fail("second_call_same_array:" + b, "second graph from the same array object: " + m)
        res.evaluations += 1
    nt = (max([t for t, _ in nodes.values()]) + 1) if nodes else 0
    _classify(res, {t for t, _ in nodes.values()}, nt, tie, inp, nsp, bool(nodes))
    return res


def probe_multiseg(inp) -> ProbeResult:
    """The building blocks as a multi-hypothesis caller combines them: nodes per hypothesis,
    candidate edges over the union, add_iou(multiseg=True)."""
    import networkx as nx
    from funtracks.candidate_graph.iou import add_iou
    from funtracks.candidate_graph.utils import add_cand_edges, nodes_from_segmentation

    res = ProbeResult()
    spatial = tuple(inp["spatial"])
    nh, nt = len(inp["hyps"]), len(inp["hyps"][0])
    seg = np.zeros((nh, nt, *spatial), dtype=inp["dtype"])
    nodes, masks, hyp_of = {}, {}, {}
    for h, frames in enumerate(inp["hyps"]):
        for t, dets in enumerate(frames):
            for d in dets:
                lo, hi = d["box"]
                seg[h, t][tuple(slice(a, b) for a, b in zip(lo, hi))] = d["label"]
                m = seg[h, t] == d["label"]
                idx = np.nonzero(m)
                nodes[d["label"]] = (t, [Fraction(int(a.sum()), len(idx[0])) for a in idx])
                masks[d["label"]] = m
                hyp_of[d["label"]] = h
    if not nodes:
        res.discarded = "no_detection"
        return res
    src = seg.copy()
    try:
        g = nx.DiGraph()
        nfd: dict = {}
        for h in range(nh):
            gh, fd = nodes_from_segmentation(seg[h])
            g = nx.compose(g, gh)
            for t, ns in fd.items():
                nfd.setdefault(t, []).extend(ns)
        add_cand_edges(g, inp["r"], nfd if inp["given_frame_dict"] else None)
        add_iou(g, seg, nfd if inp["given_frame_dict"] else None, multiseg=True)
    except Exception as e:  # noqa: BLE001
        res.fail(f"exception:{type(e).__name__}", f"multi-hypothesis candidate graph raised {e!r}")
        return res
    if not np.array_equal(seg, src):
        res.fail("input_modified", "segmentation modified")
    exact = all(_dyadic(c) for _, p in nodes.values() for c in p) and _dyadic(Fraction(inp["r"]))
    _compare(res, g, nodes, inp["r"], exact, "multiseg")
    cross = False
    for u, v in g.edges:
        u_, v_ = (u.item() if isinstance(u, np.generic) else u), (v.item() if isinstance(v, np.generic) else v)
        if u_ in masks and v_ in masks:
            ref = refs.iou(masks[u_], masks[v_])
            if hyp_of[u_] != hyp_of[v_] and ref > 0:
                cross = True
                if hyp_of[u_] > hyp_of[v_]:
                    res.tags.append("c18:multiseg_later_to_earlier_hypothesis")
            if not refs.close(g.edges[u, v].get("iou"), float(ref)):
                res.fail("edge_iou" + (":cross_hypothesis" if hyp_of[u_] != hyp_of[v_] else ""),
                         f"edge ({u_},{v_}) hypotheses {hyp_of[u_]}->{hyp_of[v_]}: iou {g.edges[u, v].get('iou')} != {float(ref)}")
    if cross:
        res.tags.append("c18:multiseg_cross_overlap")
        res.nontrivial = ("multiseg", nh, nt, len(nodes), g.number_of_edges())
    return res


def _classify(res, present, nt, tie, inp, nsp, any_nodes):
    pat = _pattern(present, nt)
    gap = any(pat[i] == 0 and any(pat[:i]) and any(pat[i + 1:]) for i in range(len(pat)))
    if gap:
        res.tags.append("c18:gap_between_nonempty")
    if tie and inp["rmode"] != "huge":
        res.tags.append("c18:exact_tie")
    if not any_nodes:
        res.tags.append("c18:all_empty")
    if gap or tie:
        res.nontrivial = (pat, nsp, bool(tie), inp["rmode"], inp["scale"] is None)


PARTS = [
    Part("seg", seg_inputs(), probe_seg, quick=5000, thorough=60000),
    Part("points", point_inputs(), probe_points, quick=5000, thorough=60000),
    Part("multiseg", multiseg_inputs(), probe_multiseg, quick=1500, thorough=15000),
]


def run_shard(ctx):
    pure.run_shard(ctx, PARTS)


def replay(obj, col):
    pure.replay(PARTS, obj, col)


def minimise(bucket, failure):
    return pure.minimise(PARTS, bucket, failure)
