"""Canonical observable state of a Tracks object and tolerant comparison."""

from __future__ import annotations

import copy

import numpy as np

# keys whose values are recomputed from pixels (compared with a tolerance)
FLOAT_KEYS = {"area", "pos", "ellipse_axis_radii", "circularity", "perimeter", "iou"}


def norm(v):
    """numpy scalars -> python, sequences -> tuples (value-based comparison)."""
    if v is None:
        return None
    if isinstance(v, np.generic):
        return v.item()
    if isinstance(v, np.ndarray):
        return tuple(norm(x) for x in v.tolist())
    if isinstance(v, (list, tuple)):
        return tuple(norm(x) for x in v)
    return v


def special_keys(tracks) -> list[str]:
    f = tracks.features
    keys = [f.time_key]
    pk = f.position_key
    if isinstance(pk, list):
        keys += list(pk)
    elif pk is not None:
        keys.append(pk)
    if f.tracklet_key is not None:
        keys.append(f.tracklet_key)
    if getattr(f, "lineage_key", None) is not None:
        keys.append(f.lineage_key)
    return keys


def node_keys(tracks) -> list[str]:
    keys = list(tracks.features.node_features.keys())
    for k in special_keys(tracks):
        if k not in keys:
            keys.append(k)
    return keys


def edge_keys(tracks) -> list[str]:
    return list(tracks.features.edge_features.keys())


def canon(tracks) -> dict:
    """Nodes/edges with the value of every registered feature (None == absent) + array."""
    nk = node_keys(tracks)
    ek = edge_keys(tracks)
    g = tracks.graph
    nodes = {int(n): {k: norm(g.nodes[n].get(k)) for k in nk} for n in g.nodes}
    edges = {(int(u), int(v)): {k: norm(g.edges[u, v].get(k)) for k in ek} for u, v in g.edges}
    seg = None if tracks.segmentation is None else np.array(tracks.segmentation, copy=True)
    return {"nodes": nodes, "edges": edges, "seg": seg, "node_keys": tuple(nk), "edge_keys": tuple(ek)}


def _val_equal(key, a, b, float_keys) -> bool:
    from .refs import close

    if key in float_keys:
        return close(a, b)
    return a == b


def canon_diff(a: dict, b: dict, float_keys=None) -> str | None:
    """First difference between two canonical states, or None."""
    fk = FLOAT_KEYS if float_keys is None else float_keys
    if set(a["nodes"]) != set(b["nodes"]):
        return (f"node sets differ: only-left={sorted(set(a['nodes']) - set(b['nodes']))} "
                f"only-right={sorted(set(b['nodes']) - set(a['nodes']))}")
    if set(a["edges"]) != set(b["edges"]):
        return (f"edge sets differ: only-left={sorted(set(a['edges']) - set(b['edges']))} "
                f"only-right={sorted(set(b['edges']) - set(a['edges']))}")
    if set(a["node_keys"]) != set(b["node_keys"]) or set(a["edge_keys"]) != set(b["edge_keys"]):
        return (f"registered keys differ: {sorted(a['node_keys'])}/{sorted(a['edge_keys'])} vs "
                f"{sorted(b['node_keys'])}/{sorted(b['edge_keys'])}")
    for n, attrs in a["nodes"].items():
        for k, v in attrs.items():
            w = b["nodes"][n].get(k)
            if not _val_equal(k, v, w, fk):
                return f"node {n} key {k!r}: {v!r} != {w!r}"
    for e, attrs in a["edges"].items():
        for k, v in attrs.items():
            w = b["edges"][e].get(k)
            if not _val_equal(k, v, w, fk):
                return f"edge {e} key {k!r}: {v!r} != {w!r}"
    sa, sb = a["seg"], b["seg"]
    if (sa is None) != (sb is None):
        return "segmentation present on one side only"
    if sa is not None:
        if sa.shape != sb.shape or not np.array_equal(sa, sb):
            idx = np.argwhere(sa != sb)
            first = tuple(idx[0].tolist()) if len(idx) else None
            return f"segmentation arrays differ at {len(idx)} pixels, first {first}"
    return None


def lookups(tracks) -> dict:
    out = {}
    ann = getattr(tracks, "track_annotator", None)
    if ann is None:
        return out
    out["tracklets"] = {int(k): sorted(int(x) for x in v) for k, v in ann.tracklet_id_to_nodes.items() if len(v)}
    out["lineages"] = {int(k): sorted(int(x) for x in v) for k, v in ann.lineage_id_to_nodes.items() if len(v)}
    return out


def lookup_keys(tracks) -> dict:
    """Every key of the two lookup dictionaries, empty entries included (strict form)."""
    ann = getattr(tracks, "track_annotator", None)
    if ann is None:
        return {}
    return {"tracklets": sorted(ann.tracklet_id_to_nodes.keys()), "lineages": sorted(ann.lineage_id_to_nodes.keys())}


def registry(tracks) -> dict:
    f = tracks.features
    return {
        "features": {k: copy.deepcopy(dict(v)) for k, v in f.items()},
        "time_key": f.time_key,
        "position_key": copy.deepcopy(f.position_key),
        "tracklet_key": f.tracklet_key,
        "lineage_key": getattr(f, "lineage_key", None),
        "annotators": {k: bool(on) for k, (_, on) in tracks.annotators.all_features.items()},
    }


def raw_graph(tracks) -> dict:
    """Every attribute actually stored (presence-sensitive), for 'changes nothing' oracles."""
    g = tracks.graph
    return {
        "nodes": {int(n): {k: norm(v) for k, v in d.items()} for n, d in g.nodes(data=True)},
        "edges": {(int(u), int(v)): {k: norm(x) for k, x in d.items()} for u, v, d in g.edges(data=True)},
        "node_order": [int(n) for n in g.nodes],
    }


def full_snapshot(tracks) -> dict:
    hist = tracks.action_history
    return {
        "raw": raw_graph(tracks),
        "seg": None if tracks.segmentation is None else np.array(tracks.segmentation, copy=True),
        "seg_dtype": None if tracks.segmentation is None else str(tracks.segmentation.dtype),
        "scale": copy.deepcopy(tracks.scale),
        "ndim": tracks.ndim,
        "registry": registry(tracks),
        "lookups": lookups(tracks),
        "lookup_keys": lookup_keys(tracks),
        "history": (tuple(id(a) for a in hist.undo_stack), tuple(id(a) for a in hist.redo_stack)),
    }


def full_diff(a: dict, b: dict, ignore_node_order: bool = True, strict_lookups: bool = False) -> str | None:
    if strict_lookups and a.get("lookup_keys") != b.get("lookup_keys"):
        return f"lookup dictionaries gained/lost keys: {a.get('lookup_keys')} -> {b.get('lookup_keys')}"
    ra, rb = a["raw"], b["raw"]
    if set(ra["nodes"]) != set(rb["nodes"]):
        return (f"node sets differ: removed={sorted(set(ra['nodes']) - set(rb['nodes']))} "
                f"added={sorted(set(rb['nodes']) - set(ra['nodes']))}")
    if set(ra["edges"]) != set(rb["edges"]):
        return (f"edge sets differ: removed={sorted(set(ra['edges']) - set(rb['edges']))} "
                f"added={sorted(set(rb['edges']) - set(ra['edges']))}")
    for n, d in ra["nodes"].items():
        if d != rb["nodes"][n]:
            ks = sorted(k for k in set(d) | set(rb["nodes"][n]) if d.get(k, "<absent>") != rb["nodes"][n].get(k, "<absent>"))
            k = ks[0]
            return f"node {n} attribute {k!r}: {d.get(k, '<absent>')!r} -> {rb['nodes'][n].get(k, '<absent>')!r}"
    for e, d in ra["edges"].items():
        if d != rb["edges"][e]:
            ks = sorted(k for k in set(d) | set(rb["edges"][e]) if d.get(k, "<absent>") != rb["edges"][e].get(k, "<absent>"))
            k = ks[0]
            return f"edge {e} attribute {k!r}: {d.get(k, '<absent>')!r} -> {rb['edges'][e].get(k, '<absent>')!r}"
    if not ignore_node_order and ra["node_order"] != rb["node_order"]:
        return "node iteration order changed"
    if (a["seg"] is None) != (b["seg"] is None):
        return "segmentation appeared/disappeared"
    if a["seg"] is not None:
        if a["seg_dtype"] != b["seg_dtype"] or a["seg"].shape != b["seg"].shape:
            return f"segmentation dtype/shape changed: {a['seg_dtype']}{a['seg'].shape} -> {b['seg_dtype']}{b['seg'].shape}"
        if not np.array_equal(a["seg"], b["seg"]):
            idx = np.argwhere(a["seg"] != b["seg"])
            return f"segmentation differs at {len(idx)} pixels, first {tuple(idx[0].tolist())}"
    if norm(a["scale"]) != norm(b["scale"]) or (a["scale"] is None) != (b["scale"] is None):
        return f"scale changed: {a['scale']!r} -> {b['scale']!r}"
    if a["ndim"] != b["ndim"]:
        return "ndim changed"
    if a["registry"] != b["registry"]:
        for k in a["registry"]:
            if a["registry"][k] != b["registry"][k]:
                return f"feature registry changed ({k}): {a['registry'][k]!r} -> {b['registry'][k]!r}"
    if a["lookups"] != b["lookups"]:
        for k in a["lookups"]:
            if a["lookups"][k] != b["lookups"].get(k):
                return f"lookup {k} changed: {a['lookups'][k]!r} -> {b['lookups'].get(k)!r}"
        return "lookups changed"
    if a["history"] != b["history"]:
        return (f"undo history changed: undo {len(a['history'][0])}->{len(b['history'][0])}, "
                f"redo {len(a['history'][1])}->{len(b['history'][1])}")
    return None
