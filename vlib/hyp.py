"""Thin wrapper around Hypothesis used by every property module.

Every run is a pure function of (tree, VERIF_SEED): the shard seed is given to
``hypothesis.seed``, the example database is off, there is no deadline and no
derandomisation. Oracles do *not* raise into Hypothesis: they record failures in the
shard's collector (bucketed), so generation continues past the first failure
(collect-then-shrink); minimisation of one case per bucket happens afterwards in the
property module (delta debugging on the concrete case, see vlib/ddmin.py).
"""

from __future__ import annotations

import hypothesis
from hypothesis import HealthCheck, Phase, given, settings
from hypothesis import strategies as st

__all__ = ["run_given", "st"]


def run_given(seed: int, max_examples: int, strategy, fn) -> None:
    """Generate ``max_examples`` values from ``strategy`` and call ``fn(value)``."""
    if max_examples <= 0:
        return

    @hypothesis.seed(seed)
    @settings(
        max_examples=max_examples,
        database=None,
        deadline=None,
        derandomize=False,
        report_multiple_bugs=False,
        phases=(Phase.generate,),
        suppress_health_check=list(HealthCheck),
    )
    @given(strategy)
    def _test(value):
        fn(value)

    _test()


class _Found(Exception):
    pass


def find_minimal(seed: int, max_examples: int, strategy, probe, bucket: str):
    """Re-find a failure of ``bucket`` and let Hypothesis shrink it.

    ``probe(value)`` returns ``{bucket: (message, replay)}`` for the failures that value
    produces. Returns the (message, replay) of the minimal failing value, or None.
    """
    last: dict = {}
    calls = {"n": 0, "after_first": 0}
    SHRINK_BUDGET = 250  # probe calls after the first failure (bounded by count, not by time)

    @hypothesis.seed(seed)
    @settings(
        max_examples=max_examples,
        database=None,
        deadline=None,
        derandomize=False,
        report_multiple_bugs=False,
        phases=(Phase.generate, Phase.shrink),
        suppress_health_check=list(HealthCheck),
        verbosity=hypothesis.Verbosity.quiet,
    )
    @given(strategy)
    def _test(value):
        if "f" in last:
            calls["after_first"] += 1
            if calls["after_first"] > SHRINK_BUDGET:
                return  # budget used up: stop accepting further shrinks
        res = probe(value)
        if bucket in res:
            last["f"] = res[bucket]
            raise _Found()

    try:
        _test()
    except _Found:
        pass
    except Exception:  # noqa: BLE001 - flaky/other: keep whatever was found last
        pass
    return last.get("f")
