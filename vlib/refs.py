"""Independent reference oracles (no funtracks code is used here)."""

from __future__ import annotations

from fractions import Fraction

import numpy as np


# ----------------------------------------------------------------------------------------
# partitions of a forest
# ----------------------------------------------------------------------------------------
class _UF:
    def __init__(self, items):
        self.p = {x: x for x in items}

    def find(self, x):
        while self.p[x] != x:
            self.p[x] = self.p[self.p[x]]
            x = self.p[x]
        return x

    def union(self, a, b):
        ra, rb = self.find(a), self.find(b)
        if ra != rb:
            self.p[ra] = rb

    def classes(self):
        out: dict = {}
        for x in self.p:
            out.setdefault(self.find(x), set()).add(x)
        return [frozenset(c) for c in out.values()]


def tracklets(nodes, edges) -> list[frozenset]:
    """Maximal unbranched segments: u~v for an edge (u,v) iff u has exactly one child."""
    nodes = list(nodes)
    edges = list(edges)
    outdeg: dict = {n: 0 for n in nodes}
    for u, _ in edges:
        outdeg[u] += 1
    uf = _UF(nodes)
    for u, v in edges:
        if outdeg[u] == 1:
            uf.union(u, v)
    return uf.classes()


def lineages(nodes, edges) -> list[frozenset]:
    """Weakly connected components."""
    uf = _UF(list(nodes))
    for u, v in edges:
        uf.union(u, v)
    return uf.classes()


def partition_mismatch(label_of: dict, classes: list[frozenset]) -> str | None:
    """``label_of`` (node -> id) must be constant on each class and injective on classes
    ("same id iff same class"). Returns a description of the first mismatch or None."""
    seen: dict = {}
    for cls in classes:
        ids = {label_of[n] for n in cls}
        if len(ids) != 1:
            return f"class {sorted(cls)} carries several ids {sorted(map(repr, ids))}"
        (i,) = ids
        if i is None:
            return f"class {sorted(cls)} has no id"
        if i in seen:
            return f"id {i!r} is shared by classes {sorted(seen[i])} and {sorted(cls)}"
        seen[i] = cls
    return None


def ancestors_closure(edges, subset) -> set:
    parent: dict = {}
    for u, v in edges:
        parent.setdefault(v, []).append(u)
    out = set(subset)
    stack = list(subset)
    while stack:
        n = stack.pop()
        for p in parent.get(n, []):
            if p not in out:
                out.add(p)
                stack.append(p)
    return out


# ----------------------------------------------------------------------------------------
# measurements
# ----------------------------------------------------------------------------------------
def mask_area(mask: np.ndarray, spacing) -> float:
    vox = 1.0
    if spacing is not None:
        for s in spacing:
            vox *= float(s)
    return float(int(mask.sum())) * vox


def mask_centroid(mask: np.ndarray, spacing) -> list[float]:
    idx = np.nonzero(mask)
    out = []
    for d, ax in enumerate(idx):
        c = float(np.mean(ax.astype(np.float64)))
        if spacing is not None:
            c *= float(spacing[d])
        out.append(c)
    return out


def iou(mask_a: np.ndarray, mask_b: np.ndarray) -> Fraction:
    inter = int(np.logical_and(mask_a, mask_b).sum())
    union = int(np.logical_or(mask_a, mask_b).sum())
    if union == 0:
        return Fraction(0)
    return Fraction(inter, union)


def close(a, b, rtol=1e-9, atol=1e-12) -> bool:
    """Tolerant comparison of (nested) numbers; None only equals None; inf equals inf."""
    if a is None or b is None:
        return a is None and b is None
    if isinstance(a, (list, tuple, np.ndarray)) or isinstance(b, (list, tuple, np.ndarray)):
        try:
            la, lb = list(a), list(b)
        except TypeError:
            return False
        return len(la) == len(lb) and all(close(x, y, rtol, atol) for x, y in zip(la, lb))
    try:
        fa, fb = float(a), float(b)
    except (TypeError, ValueError):
        return a == b
    if np.isnan(fa) or np.isnan(fb):
        return np.isnan(fa) and np.isnan(fb)
    if np.isinf(fa) or np.isinf(fb):
        return fa == fb
    return abs(fa - fb) <= atol + rtol * max(abs(fa), abs(fb))


# ----------------------------------------------------------------------------------------
# shape features (independent formulas; skimage only for the primitives it defines)
# ----------------------------------------------------------------------------------------
def inertia_axes_3d(mask: np.ndarray, spacing) -> tuple[float, float, float] | None:
    """Radii of the ellipsoid with the same principal moments as the voxel set, from the
    eigenvalues of the inertia tensor (numpy.linalg.eigvalsh). None when the shape is
    degenerate (a principal-moment combination is not safely positive)."""
    sp = (1.0, 1.0, 1.0) if spacing is None else tuple(float(x) for x in spacing)
    idx = np.nonzero(mask)
    n = len(idx[0])
    if n == 0:
        return None
    c = [(a - a.mean()) * s for a, s in zip(idx, sp)]
    z, y, x = c
    t = np.array([
        [np.sum(y * y + z * z), -np.sum(x * y), -np.sum(x * z)],
        [-np.sum(x * y), np.sum(x * x + z * z), -np.sum(y * z)],
        [-np.sum(x * z), -np.sum(y * z), np.sum(x * x + y * y)],
    ])
    lo, mid, hi = np.linalg.eigvalsh(t)  # ascending
    combos = (mid + hi - lo, hi + lo - mid, lo + mid - hi)
    scale = max(hi, 1e-300)
    if min(combos) <= 1e-7 * scale:
        return None
    return tuple(float(np.sqrt(2.5 * v / n)) for v in combos)


def shape3d_defined(mask: np.ndarray, spacing) -> bool:
    """Are the 3D shape features (surface by marching cubes, inertia axes) defined?"""
    if not mask.any() or mask.all():
        return False  # marching cubes needs the 0.5 level inside the data range
    return inertia_axes_3d(mask, spacing) is not None


def axes_2d(mask: np.ndarray, spacing) -> tuple[float, float]:
    """Major/minor axis length of the ellipse with the same normalised second central
    moments (4*sqrt(eigenvalue of the coordinate covariance))."""
    sp = (1.0, 1.0) if spacing is None else tuple(float(x) for x in spacing)
    idx = np.nonzero(mask)
    c = [(a - a.mean()) * s for a, s in zip(idx, sp)]
    n = len(idx[0])
    cov = np.array([[np.sum(c[0] * c[0]), np.sum(c[0] * c[1])],
                    [np.sum(c[0] * c[1]), np.sum(c[1] * c[1])]]) / n
    lo, hi = np.linalg.eigvalsh(cov)
    return float(4 * np.sqrt(max(hi, 0.0))), float(4 * np.sqrt(max(lo, 0.0)))


def perimeter_2d(mask: np.ndarray, spacing) -> float:
    from skimage.measure import perimeter

    s = 1.0 if spacing is None else float(spacing[0])
    return float(perimeter(mask, 4)) * s


def surface_3d(mask: np.ndarray, spacing) -> float:
    from skimage.measure import marching_cubes, mesh_surface_area

    sp = (1.0, 1.0, 1.0) if spacing is None else tuple(float(x) for x in spacing)
    verts, faces, _, _ = marching_cubes(mask, level=0.5, spacing=sp)
    return float(mesh_surface_area(verts, faces))


def shape_reference(mask: np.ndarray, spacing, key: str):
    """Reference value of a regionprops-derived feature for one mask."""
    nd = mask.ndim
    if key == "area":
        return mask_area(mask, spacing)
    if key == "pos":
        return mask_centroid(mask, spacing)
    if key == "perimeter":
        return perimeter_2d(mask, spacing) if nd == 2 else surface_3d(mask, spacing)
    if key == "circularity":
        if nd == 2:
            p = perimeter_2d(mask, spacing)
            a = mask_area(mask, spacing)
            return float("inf") if p == 0 else 4 * np.pi * a / p**2
        vol = mask_area(mask, spacing)
        r = (3.0 / 4.0 / np.pi * vol) ** (1.0 / 3.0)
        return 4 * np.pi * r**2 / surface_3d(mask, spacing)
    if key == "ellipse_axis_radii":
        if nd == 2:
            return list(axes_2d(mask, spacing))
        ax = inertia_axes_3d(mask, spacing)
        return None if ax is None else list(ax)
    raise KeyError(key)
