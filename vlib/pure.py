"""Framework for properties over generated *inputs* (no history): C12, C13, C15-C19.

A property module declares ``PARTS``: each part has a Hypothesis strategy that produces a
JSON-serialisable value (so the value itself is the replay file) and a ``probe`` that runs
the code under test on it and evaluates the oracle.
"""

from __future__ import annotations

import hashlib
from dataclasses import dataclass, field
from typing import Any, Callable

from . import hyp


@dataclass
class ProbeResult:
    failures: dict[str, str] = field(default_factory=dict)  # bucket -> message
    nontrivial: Any = None  # descriptor (hashable repr) when the case is non-trivial
    tags: list[str] = field(default_factory=list)
    evaluations: int = 1
    discarded: str | None = None  # reason, when the input is outside the stated domain

    def fail(self, bucket: str, message: str) -> None:
        self.failures.setdefault(bucket, message)


@dataclass
class Part:
    name: str
    strategy: Any
    probe: Callable[[Any], ProbeResult]
    quick: int
    thorough: int
    shrink: bool = True  # False for expensive probes: the smallest recorded failing input is the replay


def _part_seed(seed: int, name: str) -> int:
    h = hashlib.blake2b(f"{seed}:{name}".encode(), digest_size=4).digest()
    return int.from_bytes(h, "big")


def run_shard(ctx, parts: list[Part]) -> None:
    col = ctx.col
    for part in parts:
        total = part.quick if ctx.tier == "quick" else part.thorough
        n = ctx.share(total)
        pseed = _part_seed(ctx.seed, part.name)
        col.extra["requested_cases"] = col.extra.get("requested_cases", 0) + n

        def fn(value, part=part, pseed=pseed, n=n):
            res = part.probe(value)
            col.case()
            if res.discarded is not None:
                col.exclude(f"{part.name}:{res.discarded}")
                return
            col.evaluation(res.evaluations)
            col.event(f"part:{part.name}")
            for t in res.tags:
                col.event(t)
            if res.nontrivial is not None:
                col.nontrivial_case((part.name, res.nontrivial))
                col.sample({"part": part.name, "input": value})
            for bucket, msg in res.failures.items():
                col.fail(
                    f"{part.name}:{bucket}",
                    msg,
                    {"part": part.name, "input": value, "origin": {"seed": pseed, "n": n}},
                )

        hyp.run_given(pseed, n, part.strategy, fn)


def replay(parts: list[Part], obj: dict, col) -> None:
    part = {p.name: p for p in parts}[obj["part"]]
    res = part.probe(obj["input"])
    col.evaluation(res.evaluations)
    for bucket, msg in res.failures.items():
        col.fail(f"{part.name}:{bucket}", msg, {"part": part.name, "input": obj["input"]})


def minimise(parts: list[Part], bucket: str, failure: dict) -> dict:
    obj = failure["replay"]
    origin = obj.get("origin")
    if not origin:
        return failure
    part = {p.name: p for p in parts}[obj["part"]]
    if not part.shrink:
        return {"message": failure["message"], "replay": {"part": part.name, "input": obj["input"]}, "size": failure.get("size", 0)}
    sub = bucket.split(":", 1)[1]

    def probe(value):
        res = part.probe(value)
        if res.discarded is not None:
            return {}
        return {b: (m, value) for b, m in res.failures.items()}

    found = hyp.find_minimal(origin["seed"], origin["n"], part.strategy, probe, sub)
    if found is None:
        return failure
    msg, value = found
    return {"message": msg, "replay": {"part": part.name, "input": value}, "size": 0}
